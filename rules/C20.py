"""C20 The Python binding returns the Rust solution in SciPy layout (plumbing tables, python cfg)."""
import facts
import tast
import C18

LEVEL = "other"
PY = "python::solve::"


def lit_value(e):
    if e is None:
        return None
    if e.get("k") == "Lit":
        return e.get("v")
    if e.get("k") == "Unary" and e["op"] == "Neg" and e["e"].get("k") == "Lit":
        return "-" + str(e["e"].get("v"))
    if e.get("k") == "Block" and not e.get("stmts") and e.get("tail") is not None:
        return lit_value(e["tail"])
    return None


def r_py_opts(rep, f):
    """dict key -> tuple position -> destructured binding -> builder setter agree by name"""
    po = f.bodies.get(PY + "parse_options")
    sv = f.bodies.get(PY + "solve_ivp_py")
    key0 = "R-PY-OPTS"
    if po is None or sv is None:
        rep.inconc(key0, key0 + ":anchor", "parse_options / solve_ivp_py not found in the python cfg")
        return
    rep.fn(po["def"])
    rep.fn(sv["def"])
    # (1) provenance of each local in parse_options: the dict key under which it is assigned
    prov = {}
    for i_ in tast.find(po["body"], lambda z: z.get("k") == "If" and z["cond"].get("k") == "LetExpr"
                        and (tast.contains(z["cond"]["init"], lambda q: q.get("k") == "MethodCall" and q.get("name") == "get_item")
                             or len(tast.find(z["cond"]["init"], lambda q: q.get("k") == "Lit" and q.get("lk") == "Str")) == 1)):
        gis = tast.find(i_["cond"]["init"], lambda q: q.get("k") == "MethodCall" and q.get("name") == "get_item")
        k = gis[0]["args"][0] if gis else tast.find(i_["cond"]["init"], lambda q: q.get("k") == "Lit" and q.get("lk") == "Str")[0]
        kv = k.get("v") if k.get("k") == "Lit" else None
        for a in tast.find(i_["then"], lambda z: z.get("k") == "Assign" and z["l"].get("k") == "Path"):
            prov.setdefault(a["l"]["id"], set()).add(kv)
    # ... or directly from a lookup expression naming the key (`x = helper(opts, "key")`, `opts.get_item("key")...`)
    is_key = lambda q: q.get("k") == "Lit" and q.get("lk") == "Str"
    for a in tast.find(po["body"], lambda z: z.get("k") == "Assign" and z["l"].get("k") == "Path" and tast.contains(z["r"], is_key)):
        for q in tast.find(a["r"], is_key):
            prov.setdefault(a["l"]["id"], set()).add(q.get("v"))
    for l_ in tast.find(po["body"], lambda z: z.get("k") == "Let" and z["pat"].get("k") == "PBind" and z.get("init") is not None and tast.contains(z["init"], is_key)
                        and not tast.contains(z["init"], lambda q: q.get("k") in ("If", "Match", "Block"))):
        for q in tast.find(l_["init"], is_key):
            prov.setdefault(l_["pat"]["id"], set()).add(q.get("v"))
    # (2) the returned tuple
    rets = tast.find(po["body"], lambda z: z.get("k") == "Tuple" and len(z["elems"]) >= 4 and all(e.get("k") == "Path" for e in z["elems"]))
    if len(rets) != 1:
        rep.inconc(key0, key0 + ":tuple", "returned option tuple not found")
        return
    order = []
    for e in rets[0]["elems"]:
        ks = prov.get(e.get("id"), set())
        order.append(next(iter(ks)) if len(ks) == 1 else None)
    for j, (e, k) in enumerate(zip(rets[0]["elems"], order)):
        key = "%s:parse_options:slot%d" % (key0, j)
        if k is None:
            rep.violation(key0, key, "tuple slot %d (`%s`) is filled from %s dict keys" % (j, e.get("name"), sorted(prov.get(e.get("id"), []))), e.get("sp"))
        else:
            rep.ok(key0, key, "slot %d <- options[%r]" % (j, k))
    # (3) destructuring in solve_ivp_py
    lets = tast.find(sv["body"], lambda z: z.get("k") == "Let" and z["pat"].get("k") == "PTuple" and z.get("init") is not None
                     and tast.contains(z["init"], lambda q: q.get("k") == "Call" and (q.get("def") or "") == PY + "parse_options"))
    if len(lets) != 1 or len(lets[0]["pat"]["pats"]) != len(order):
        rep.violation(key0, key0 + ":destructure", "solve_ivp_py does not destructure the %d-tuple returned by parse_options" % len(order), sv.get("sp"))
        return
    bind = {p["id"]: order[j] for j, p in enumerate(lets[0]["pat"]["pats"]) if p.get("k") == "PBind"}
    # (4) builder setters
    n = 0
    for c in tast.find(sv["body"], lambda z: z.get("k") == "MethodCall" and "OptionsBuilder" in (z.get("def") or "") and len(z["args"]) == 1):
        a = c["args"][0]
        if a.get("k") == "Path" and a.get("id") in bind:
            n += 1
            setter = c["name"][6:] if c["name"].startswith("maybe_") else c["name"]
            key = "%s:setter:%s" % (key0, c["name"])
            if bind[a["id"]] == setter:
                rep.ok(key0, key, "options[%r] -> .%s(..)" % (bind[a["id"]], c["name"]))
            else:
                rep.violation(key0, key, "the value parsed from options[%r] is passed to the builder setter .%s(..)" % (bind[a["id"]], c["name"]), c.get("sp"))
    if n < len(order):
        rep.violation(key0, key0 + ":unused", "only %d of the %d parsed options reach a builder setter" % (n, len(order)), sv.get("sp"))
    # direct arguments: dense_output / t_eval / method
    for name, want in (("dense_output", "dense_output"), ("maybe_t_eval", "t_eval"), ("method", "method")):
        cs = tast.find(sv["body"], lambda z: z.get("k") == "MethodCall" and "OptionsBuilder" in (z.get("def") or "") and z.get("name") == name)
        key = "%s:setter:%s" % (key0, name)
        if len(cs) == 1 and tast.contains(cs[0]["args"][0], lambda q: q.get("k") == "Path" and want in (q.get("name") or "")):
            rep.ok(key0, key, ".%s(%s)" % (name, tast.render(cs[0]["args"][0])))
        else:
            rep.violation(key0, key, "the %s argument does not reach Options::%s" % (want, name), sv.get("sp"))
    # single call to the Rust solve_ivp
    calls = tast.find(sv["body"], lambda z: z.get("k") == "Call" and z.get("def") == "solve::solve_ivp::solve_ivp")
    if len(calls) == 1:
        rep.ok(key0, key0 + ":single-call", "one call to solve::solve_ivp")
    else:
        rep.violation(key0, key0 + ":single-call", "%d calls to the Rust solve_ivp" % len(calls), sv.get("sp"))


def r_py_status(rep, f):
    br = f.bodies.get(PY + "build_result")
    key0 = "R-PY-STATUS"
    if br is None:
        rep.inconc(key0, key0 + ":anchor", "build_result not found")
        return
    rep.fn(br["def"])
    ms = [m for m in tast.find(br["body"], lambda z: z.get("k") == "Match") if tast.contains(m["scrut"], lambda q: q.get("k") == "Field" and q.get("name") == "status")]
    if len(ms) != 1:
        rep.inconc(key0, key0 + ":match", "status match not found")
        return
    adt = f.adts.get("status::Status")
    variants = [v["name"] for v in adt["variants"]] if adt else []
    table = {}
    default = None
    for a in ms[0]["arms"]:
        d = a["pat"].get("def") or a["pat"].get("ctor_of") or ""
        v = lit_value(a["body"])
        if a["pat"]["k"] == "PWild":
            default = v
        elif d.startswith("status::Status::"):
            table[d.split("::")[-1]] = v
    want = {"Success": "0", "UserInterrupt": "1"}
    for v in variants:
        got = table.get(v, default)
        exp = want.get(v, "-1")
        key = "%s:%s" % (key0, v)
        if str(got) == exp:
            rep.ok(key0, key, "%s -> %s" % (v, got))
        else:
            rep.violation(key0, key, "Status::%s is reported to Python as status %s (SciPy: %s)" % (v, got, exp), ms[0].get("sp"))
    if len(variants) < 5:
        rep.inconc(key0, key0 + ":floor", "only %d Status variants" % len(variants))
    # success = status >= 0
    lit = [s for s in tast.find(br["body"], lambda z: z.get("k") == "Struct" and "PyOdeResult" in (z.get("def") or ""))]
    if len(lit) == 1:
        def through_lets(e, depth=0):
            """a field initialiser given as a single-assignment local stands for that local's initialiser"""
            while e is not None and e.get("k") == "Path" and e.get("res") == "local" and depth < 4:
                lets = tast.find(br["body"], lambda z: z.get("k") == "Let" and z["pat"].get("id") == e.get("id") and z.get("init") is not None)
                asg = tast.find(br["body"], lambda z: z.get("k") in ("Assign", "AssignOp") and z["l"].get("k") == "Path" and z["l"].get("id") == e.get("id"))
                if len(lets) != 1 or asg:
                    break
                e = lets[0]["init"]
                depth += 1
            return e
        fl = {x["name"]: through_lets(x["e"]) for x in lit[0]["fields"]}
        e = fl.get("success")
        ok = e is not None and e.get("k") == "Binary" and ((e["op"] == "Ge" and e["r"].get("k") == "Lit" and str(e["r"].get("v")) == "0")
                                                              or (e["op"] == "Le" and e["l"].get("k") == "Lit" and str(e["l"].get("v")) == "0")
                                                              or (e["op"] == "Gt" and e["r"].get("k") == "Unary" and tast.render(e["r"]).replace(" ", "") in ("-1", "(-1)")))
        (rep.ok(key0, key0 + ":success", "success = status >= 0") if ok else rep.violation(key0, key0 + ":success", "success is %s, not status >= 0" % tast.render(e), (e or lit[0]).get("sp")))
        # statistics copied by name
        for nm in ("nfev", "nlu"):
            e = fl.get(nm)
            ok = e is not None and e.get("k") == "Field" and e.get("name") == nm
            (rep.ok("R-PY-STATS", "R-PY-STATS:%s" % nm, "%s <- sol.%s" % (nm, nm)) if ok else rep.violation("R-PY-STATS", "R-PY-STATS:%s" % nm, "PyOdeResult.%s is %s" % (nm, tast.render(e)), (e or lit[0]).get("sp")))
        e = fl.get("njev")
        ok = e is not None and tast.contains(e, lambda q: q.get("k") == "Field" and q.get("name") == "njev")
        (rep.ok("R-PY-STATS", "R-PY-STATS:njev", "njev <- sol.njev (0 for a constant Jacobian)") if ok else rep.violation("R-PY-STATS", "R-PY-STATS:njev", "PyOdeResult.njev is %s" % tast.render(e), lit[0].get("sp")))
    else:
        rep.inconc(key0, key0 + ":literal", "PyOdeResult literal not found")


class _LNo(Exception):
    pass


class LayoutEval:
    """Finite model evaluation of the code that flattens a Vec<Vec<f64>> into a flat Vec and reshapes it: the source is
    replaced by an R x C table of distinct symbols, the (loop / index / extend / push) statements between the allocation
    of the flat vector and the `reshape((A, B))` are executed on that model, and element (a, b) of the reshaped array is
    flat[a*B + b] (C order). Only shapes and positions are computed - no floating-point value is involved."""

    def __init__(self, body, src_pred, R, C):
        self.body, self.src_pred, self.R, self.C = body, src_pred, R, C
        self.env = {}

    def src(self):
        return [[("s", r, c) for c in range(self.C)] for r in range(self.R)]

    def ev(self, e, depth=0):
        if e is None or depth > 40:
            raise _LNo("depth")
        if self.src_pred(e):
            return self.src()
        k = e.get("k")
        if k in ("AddrOf", "Cast", "DropTemps"):
            return self.ev(e["e"], depth + 1)
        if k == "Unary" and e["op"] == "Deref":
            return self.ev(e["e"], depth + 1)
        if k == "Lit":
            if e.get("lk") == "Int":
                return int(e["v"])
            if e.get("lk") == "Float":
                return None
            if e.get("lk") == "Bool":
                return bool(e["v"])
        if k == "Path" and e.get("res") == "local":
            if e["id"] in self.env:
                return self.env[e["id"]]
            raise _LNo("local %s" % e.get("name"))
        if k == "Binary":
            l, r = self.ev(e["l"], depth + 1), self.ev(e["r"], depth + 1)
            op = e["op"]
            if isinstance(l, int) and isinstance(r, int):
                t = {"Add": l + r, "Sub": l - r, "Mul": l * r, "Gt": l > r, "Ge": l >= r, "Lt": l < r, "Le": l <= r, "Eq": l == r, "Ne": l != r}
                if op in t:
                    return t[op]
            raise _LNo("binary %s" % op)
        if k == "If":
            c = self.ev(e["cond"], depth + 1)
            return self.ev(e["then"] if c else e.get("else"), depth + 1)
        if k == "Block":
            self.run_block(e)
            t = e.get("tail") if e.get("tail") is not None else e.get("expr")
            return self.ev(t, depth + 1) if t is not None else None
        if k == "Index":
            base, i = self.ev(e["e"], depth + 1), self.ev(e["i"], depth + 1)
            if isinstance(base, list) and isinstance(i, int):
                return base[i]
            raise _LNo("index")
        if k == "MethodCall":
            nm = e.get("name")
            if nm == "len" and not e["args"]:
                v = self.ev(e["recv"], depth + 1)
                if isinstance(v, list):
                    return len(v)
            if nm in ("iter", "into_iter", "clone", "to_vec", "as_slice", "copied", "cloned") and not e["args"]:
                return self.ev(e["recv"], depth + 1)
            if nm == "enumerate" and not e["args"]:
                v = self.ev(e["recv"], depth + 1)
                if isinstance(v, list):
                    return [(i, x) for i, x in enumerate(v)]
            if nm == "is_empty" and not e["args"]:
                v = self.ev(e["recv"], depth + 1)
                if isinstance(v, list):
                    return len(v) == 0
            raise _LNo("method %s" % nm)
        if k == "Call":
            d = e.get("def") or ""
            if d.endswith("vec::from_elem") and len(e["args"]) == 2:
                n = self.ev(e["args"][1], depth + 1)
                if isinstance(n, int):
                    return [None] * n
            if d.endswith("::with_capacity") or d.endswith("Vec::<T>::new"):
                return []
            raise _LNo("call %s" % d[-30:])
        if k == "Struct" and (e.get("def") or "").startswith("std::ops::Range"):
            fl = {x["name"]: x["e"] for x in e["fields"]}
            lo, hi = self.ev(fl["start"], depth + 1), self.ev(fl["end"], depth + 1)
            return list(range(lo, hi + (1 if "Inclusive" in e["def"] else 0)))
        if k == "Tuple":
            return tuple(self.ev(x, depth + 1) for x in e["elems"])
        raise _LNo("node %s" % k)

    def bind(self, pat, v):
        k = pat.get("k")
        if k == "PBind":
            self.env[pat["id"]] = v
        elif k == "PTuple":
            if not isinstance(v, tuple) or len(v) != len(pat["pats"]):
                raise _LNo("tuple pattern")
            for p_, x in zip(pat["pats"], v):
                self.bind(p_, x)
        elif k in ("PRef", "PDeref"):
            self.bind(pat["pat"], v)
        elif k != "PWild":
            raise _LNo("pattern %s" % k)

    def lv_list(self, e):
        while e.get("k") in ("AddrOf", "Unary"):
            e = e["e"]
        if e.get("k") == "Path" and e.get("res") == "local" and isinstance(self.env.get(e["id"]), list):
            return self.env[e["id"]]
        raise _LNo("target")

    def run_stmt(self, st):
        k = st.get("k")
        if k == "Let":
            if st.get("init") is None:
                return
            try:
                self.bind(st["pat"], self.ev(st["init"]))
            except _LNo:
                pass       # a binding this model does not need (python objects etc.); using it later is an error then
            return
        if k in ("ExprStmt", "Semi"):
            return self.run_stmt(st["e"])
        if k == "For":
            it = self.ev(st["iter"])
            if not isinstance(it, list):
                raise _LNo("loop over a non-list")
            for x in it:
                self.bind(st["pat"], x)
                self.run_block(st["body"])
            return
        if k == "Assign" and st["l"].get("k") == "Index":
            tgt = self.lv_list(st["l"]["e"])
            i = self.ev(st["l"]["i"])
            if not isinstance(i, int) or not (0 <= i < len(tgt)):
                raise _LNo("store index %r out of the allocated range" % (i,))
            tgt[i] = self.ev(st["r"])
            return
        if k == "MethodCall" and st.get("name") in ("extend", "extend_from_slice", "push", "append"):
            tgt = self.lv_list(st["recv"])
            v = self.ev(st["args"][0])
            if st["name"] == "push":
                tgt.append(v)
            elif isinstance(v, list):
                tgt.extend(v)
            else:
                raise _LNo("extend with a non-list")
            return
        if k == "Block":
            return self.run_block(st)
        if k == "If":
            c = self.ev(st["cond"])
            br = st["then"] if c else st.get("else")
            if br is not None:
                self.run_stmt(br)
            return
        # anything else (building python objects, pushes into other lists) is irrelevant to the layout
        return

    def run_block(self, blk):
        for st in blk.get("stmts", []):
            self.run_stmt(st)
        t = blk.get("tail")
        if t is not None and t.get("k") in ("For", "If", "Block", "Assign", "MethodCall", "Match"):
            self.run_stmt(t)


def r_py_transpose(rep, f):
    """array layout: y has shape (n_states, n_times) with y[state][time] = sol.y[time][state]; each y_events[k] has shape
    (n_occurrences, n_states) with rows = occurrences. Decided by executing the flattening code on an R x C table of
    symbols for (R, C) = (2, 3) and (3, 2) and reading the reshaped array back in C order."""
    br = f.bodies.get(PY + "build_result")
    key0 = "R-PY-TRANSPOSE"
    if br is None:
        rep.inconc(key0, key0 + ":anchor", "build_result not found")
        return
    body = br["body"]
    reshapes = tast.find_with_parents(body, lambda z: z.get("k") == "MethodCall" and z.get("name") == "reshape")
    done = set()
    for rs, parents in reshapes:
        flat = tast.find(rs["recv"], lambda q: q.get("k") == "Path" and q.get("res") == "local" and "Vec<f64>" in (q.get("ty") or ""))
        if len(flat) != 1:
            continue
        flat_id = flat[0]["id"]
        # which solution field feeds this array?
        fills = [n_ for n_ in tast.find(body, lambda z: z.get("k") == "For" and tast.contains(z["body"], lambda q: q.get("k") == "Path" and q.get("id") == flat_id))]
        outer_fill = [l for l in fills if not any(l is not m and tast.contains(m["body"], lambda z: z is l) and tast.contains(m["body"], lambda q: q.get("k") == "Let" and q["pat"].get("id") == flat_id) is False and
                                                  tast.contains(m, lambda q: q.get("k") == "Path" and q.get("id") == flat_id) and not tast.contains(m["body"], lambda q: q.get("k") == "Let" and q["pat"].get("id") == flat_id) for m in fills)]
        if not outer_fill:
            continue
        loop = outer_fill[0]
        is_y = tast.contains(loop, lambda q: q.get("k") == "Field" and (q.get("fdef") or "").endswith("Solution::y"))
        src_node = None
        kind = None
        if is_y:
            kind = "y"
            src_pred = lambda e: e.get("k") == "Field" and (e.get("fdef") or "").endswith("Solution::y")
        else:
            # y_events: the source is the per-event table bound by an enclosing loop over Solution::y_events
            enc = [p for p in parents if p.get("k") == "For" and tast.contains(p["iter"], lambda q: q.get("k") == "Field" and (q.get("fdef") or "").endswith("Solution::y_events"))]
            if not enc or enc[-1]["pat"].get("k") != "PBind":
                continue
            kind = "y_events"
            sid = enc[-1]["pat"]["id"]
            src_pred = lambda e, sid=sid: e.get("k") == "Path" and e.get("res") == "local" and e.get("id") == sid
        key = "%s:%s" % (key0, kind)
        if key in done:
            continue
        done.add(key)
        # the block holding the allocation of the flat vector
        blk = next((p for p in reversed(parents) if p.get("k") == "Block" and tast.contains(p, lambda q: q.get("k") == "Let" and q["pat"].get("id") == flat_id)), None)
        if blk is None:
            rep.inconc(key0, key, "allocation of the flat buffer not found")
            continue
        probs = []
        try:
            for R, C in ((2, 3), (3, 2)):
                le = LayoutEval(body, src_pred, R, C)
                # statements of the function up to and including the block (lets computing the dimensions come first)
                chain = [p for p in parents if p.get("k") == "Block"]
                for outer_blk in chain:
                    for st in outer_blk.get("stmts", []):
                        if tast.contains(st, lambda z: z is rs):
                            break
                        if outer_blk is blk or st.get("k") == "Let":
                            le.run_stmt(st)
                    if outer_blk is blk:
                        break
                flat_v = le.env.get(flat_id)
                shape = le.ev(rs["args"][0])
                if not isinstance(flat_v, list) or not (isinstance(shape, tuple) and len(shape) == 2):
                    raise _LNo("flat buffer / shape not evaluated")
                A, B = shape
                if A * B != len(flat_v) or any(x is None for x in flat_v):
                    probs.append("source %dx%d: reshape((%d, %d)) of a buffer with %d filled entries" % (R, C, A, B, len([x for x in flat_v if x is not None])))
                    continue
                for a_ in range(A):
                    for b_ in range(B):
                        got = flat_v[a_ * B + b_]
                        want = ("s", b_, a_) if kind == "y" else ("s", a_, b_)
                        if (kind == "y" and (A, B) != (C, R)) or (kind == "y_events" and (A, B) != (R, C)):
                            probs.append("source %dx%d is reshaped to (%d, %d)" % (R, C, A, B))
                            break
                        if got != want:
                            probs.append("source %dx%d: element (%d, %d) of the result is source[%d][%d], expected source[%d][%d]" % (R, C, a_, b_, got[1], got[2], want[1], want[2]))
                            break
                    else:
                        continue
                    break
        except _LNo as ex_:
            rep.inconc(key0, key, "layout code not evaluated on the model (%s)" % ex_, rs.get("sp"))
            continue
        if probs:
            what = "y must have shape (n_states, n_times) with y[i][k] = state i at time k" if kind == "y" else "y_events[j] must have shape (n_occurrences, n_states), one row per occurrence"
            rep.violation(key0, key, "%s; %s" % (what, "; ".join(probs[:2])), rs.get("sp"))
        else:
            rep.ok(key0, key, "layout verified on 2x3 and 3x2 symbol tables: %s" % ("(n_states, n_times), transposed from the time-major samples" if kind == "y" else "(n_occurrences, n_states), row per occurrence"))
    for kind in ("y", "y_events"):
        if "%s:%s" % (key0, kind) not in done:
            rep.inconc(key0, "%s:%s" % (key0, kind), "no flatten-and-reshape site found for %s" % kind)


def r_py_args(rep, f):
    """every call of a user callable passes the tuple built by build_call_args, which appends every extra arg"""
    key0 = "R-PY-ARGS"
    n = 0
    for b in f.body_list:
        if not b["def"].startswith("<python::ivp_wrapper::PythonIVP") and not b["def"].startswith("python::ivp_wrapper::PythonIVP"):
            continue
        # locals bound from the wrapper's callable fields
        fields = ("fun", "jac", "event_funs", "events")
        is_cb_field = lambda q: q.get("k") == "Field" and q.get("name") in fields and (q.get("fdef") or "").startswith("python::ivp_wrapper::PythonIVP")
        cb_locals = set()
        for l in tast.find(b["body"], lambda z: z.get("k") in ("Let", "LetExpr") and z.get("init") is not None and tast.contains(z["init"], is_cb_field)):
            for pb in tast.find(l["pat"], lambda z: z.get("k") == "PBind"):
                cb_locals.add(pb["id"])
        for l in tast.find(b["body"], lambda z: z.get("k") == "For" and tast.contains(z["iter"], is_cb_field)):
            for pb in tast.find(l["pat"], lambda z: z.get("k") == "PBind"):
                cb_locals.add(pb["id"])
        for c in tast.find(b["body"], lambda z: z.get("k") == "MethodCall" and z.get("name") in ("call1", "call", "call0")):
            if not tast.contains(c["recv"], lambda q: is_cb_field(q) or (q.get("k") == "Path" and q.get("id") in cb_locals)):
                continue     # a method of some other Python object (e.g. sparse.toarray()), not one of the user's callables
            n += 1
            key = "%s:%s:%s" % (key0, b["def"].split("::")[-1], tast.render(c["recv"])[:30])
            a = c["args"][0] if c["args"] else None
            ok = False
            if c["name"] == "call1" and a is not None:
                src = a
                if a.get("k") == "Path" and a.get("res") == "local":
                    lets = tast.find(b["body"], lambda z: z.get("k") == "Let" and z["pat"].get("id") == a.get("id"))
                    src = lets[-1]["init"] if lets and lets[-1].get("init") else a
                ok = tast.contains(src, lambda q: q.get("k") == "MethodCall" and q.get("name") == "build_call_args")
            if ok:
                rep.ok(key0, key, "called with build_call_args(x, y)")
            else:
                rep.violation(key0, key, "a user callable is invoked as %s without the tuple from build_call_args: extra `args` do not reach it" % tast.render(c)[:80], c.get("sp"))
    bca = [b for b in f.body_list if b["def"].endswith("PythonIVP::<'py>::build_call_args") or b["def"].endswith("::build_call_args")]
    if bca:
        b = bca[0]
        loops = tast.find(b["body"], lambda z: z.get("k") == "For" and tast.contains(z["iter"], lambda q: q.get("k") == "Field" and q.get("name") == "args" or (q.get("k") == "Path" and "args" in (q.get("name") or ""))))
        pushes = [l for l in loops if tast.contains(l["body"], lambda q: q.get("k") == "MethodCall" and q.get("name") in ("push", "append", "extend"))]
        if pushes:
            rep.ok(key0, key0 + ":build_call_args", "appends every element of args")
        else:
            rep.violation(key0, key0 + ":build_call_args", "build_call_args does not append the extra args", b.get("sp"))
    else:
        rep.inconc(key0, key0 + ":build_call_args", "build_call_args not found")
    if n < 3:
        rep.inconc(key0, key0 + ":floor", "only %d callable invocations found (expected fun, jac, events)" % n)


def r_py_sol(rep, f):
    """PyOdeSolution evaluates through the extrapolating lookup (SciPy semantics), never the range-checked one: every
    ContinuousOutput method it calls must reach the extrapolating segment lookup in the call graph of cont.rs (a method that
    only reaches the range-checked lookup - evaluate, evaluate_many, whatever it is called - fails outside the span)."""
    key0 = "R-PY-SOL"
    CO = "solve::cont::ContinuousOutput::"
    EXTRA, RANGE = CO + "find_segment_extrapolate", CO + "find_segment"
    if EXTRA not in f.bodies or RANGE not in f.bodies:
        rep.inconc(key0, key0 + ":anchor", "ContinuousOutput::find_segment / find_segment_extrapolate not found")
        return

    def reach(d, seen):
        if d in seen or d not in f.bodies:
            return seen
        seen.add(d)
        for c in tast.find(f.bodies[d]["body"], lambda z: z.get("k") in ("MethodCall", "Call") and (z.get("def") or "").startswith(("solve::cont::", "dense::", "<dense::"))):
            reach(c["def"], seen)
        for cl in tast.find(f.bodies[d]["body"], lambda z: z.get("k") == "Closure" and (z.get("def") or "") in f.bodies):
            reach(cl["def"], seen)
        return seen
    n = 0
    for b in f.body_list:
        if "python::solution::PyOdeSolution" not in b["def"]:
            continue
        for c in tast.find(b["body"], lambda z: z.get("k") == "MethodCall" and (z.get("def") or "").startswith(CO)):
            r_ = reach(c["def"], set())
            if EXTRA not in r_ and RANGE not in r_:
                continue          # not an evaluation (t_span, ..)
            nm = c["def"].split("::")[-1]
            n += 1
            key = "%s:%s:%s" % (key0, b["def"].split("::")[-1], nm)
            if EXTRA in r_:
                rep.ok(key0, key, "extrapolating evaluation")
            else:
                rep.violation(key0, key, "%s evaluates through ContinuousOutput::%s, which only reaches the range-checked segment lookup: sol(t) outside the span fails "
                              "instead of extrapolating as SciPy does" % (b["def"], nm), c.get("sp"))
    if n < 2:
        rep.inconc(key0, key0 + ":floor", "only %d evaluation call sites in PyOdeSolution" % n)


def r_py_colour(rep, f):
    """greedy column grouping (python::sparsity::group_columns): test-and-mark discipline that makes `no two columns of a
    group share a row` an inductive invariant:
    (1) a column is admitted to a group exactly when NONE of its rows is marked in that group's table (the admission
        predicate is evaluated over all markings of two rows: finite table);
    (2) whenever groups[col] is assigned, every row of the column is marked `true` in the table of that same group
        (existing group) / in the table pushed for the new group - in a loop over all rows with no early exit."""
    key0 = "R-PY-COLOUR"
    fn = "python::sparsity::group_columns"
    b = f.bodies.get(fn)
    if b is None:
        rep.inconc(key0, key0 + ":anchor", "%s not found" % fn)
        return
    rep.fn(fn)
    body = b["body"]
    # ---- (1) admission predicate
    tests = tast.find(body, lambda z: z.get("k") == "MethodCall" and z.get("name") in ("all", "any") and z["args"] and z["args"][0].get("k") == "Closure")
    if len(tests) != 1:
        rep.inconc(key0, key0 + ":admission", "expected one all/any admission test, found %d" % len(tests))
    else:
        t = tests[0]
        cl = t["args"][0]
        pid = [q["id"] for q in tast.find(cl["params"], lambda q: q.get("k") == "PBind")]

        free = {}

        def ev(e, used):
            k = e.get("k")
            if k == "Binary" and e["op"] in ("And", "Or"):
                l, r = ev(e["l"], used), ev(e["r"], used)
                return (l and r) if e["op"] == "And" else (l or r)
            if k == "Binary" and e["op"] in ("Eq", "Ne", "Lt", "Le", "Gt", "Ge") and not tast.contains(e, lambda q: q.get("k") == "Index" and "bool" in (q.get("ty") or "")):
                # a comparison that does not look at the marking table: a free boolean (both values are tried)
                return free.setdefault(tast.render(e), cur_free.get(tast.render(e), False))
            if k == "Unary" and e["op"] == "Not":
                return not ev(e["e"], used)
            if k == "Unary" and e["op"] == "Deref":
                return ev(e["e"], used)
            if k == "Index" and e["i"].get("k") == "Path" and e["i"].get("id") in pid and "bool" in (e.get("ty") or ""):
                return used
            if k == "Block" and not e.get("stmts"):
                return ev(e.get("tail") if e.get("tail") is not None else e.get("expr"), used)
            if k == "Binary" and e["op"] in ("Eq", "Ne") and e["r"].get("k") == "Lit" and e["r"].get("lk") == "Bool":
                l = ev(e["l"], used)
                return (l == bool(e["r"]["v"])) if e["op"] == "Eq" else (l != bool(e["r"]["v"]))
            raise ValueError(k)
        # is the test negated at its use (`if !rows.iter().any(..)`)?
        bad = None
        cur_free = {}
        try:
            ev(cl["body"], False)       # discover the free comparisons
            import itertools
            names_free = sorted(free)
            combos = list(itertools.product((False, True), repeat=len(names_free))) if len(names_free) <= 3 else [tuple(False for _ in names_free)]
            for combo, u1, u2 in [(cb, a_, b_) for cb in combos for a_ in (False, True) for b_ in (False, True)]:
                if True:
                    cur_free = dict(zip(names_free, combo))
                    free.clear()
                    vals = [ev(cl["body"], u1), ev(cl["body"], u2)]
                    res = all(vals) if t["name"] == "all" else any(vals)
                    neg = False
                    for n_, parents in tast.find_with_parents(body, lambda z: z is t):
                        for a_ in reversed(parents):
                            if a_.get("k") == "Unary" and a_.get("op") == "Not":
                                neg = not neg
                            elif a_.get("k") in ("Let", "If", "Block", "ExprStmt"):
                                break
                    if neg:
                        res = not res
                    want = (not u1) and (not u2)
                    if res != want and bad is None:
                        bad = "rows marked (%s, %s)%s: column %s" % (u1, u2, (" with " + ", ".join("%s = %s" % kv for kv in cur_free.items())) if cur_free else "",
                                                                    "admitted although a row is taken" if res else "refused although all its rows are free")
        except ValueError as ex_:
            rep.inconc(key0, key0 + ":admission", "admission predicate not evaluated (%s)" % ex_)
            bad = False
        if bad:
            rep.violation(key0, key0 + ":admission", "a column is not admitted exactly when none of its rows is already used in the group (%s): two columns sharing a row can land in one group and their finite-difference columns are mixed" % bad, t.get("sp"))
        elif bad is None:
            rep.ok(key0, key0 + ":admission", "admitted <=> no row of the column is marked in the group's table (4 markings of two rows)")
    # ---- (2) marking on every assignment of groups[col]
    out_ids = [l["pat"]["id"] for l in tast.find(body, lambda z: z.get("k") == "Let" and z["pat"].get("k") == "PBind" and "Vec<usize>" in (z["pat"].get("ty") or ""))]
    assigns = tast.find_with_parents(body, lambda z: z.get("k") == "Assign" and z["l"].get("k") == "Index" and z["l"]["e"].get("k") == "Path" and z["l"]["e"].get("id") in out_ids)
    if len(assigns) < 1:
        rep.inconc(key0, key0 + ":marking", "no assignment of a column to a group found")
        return
    n_ok = 0
    for asg, parents in assigns:
        blk = next((p for p in reversed(parents) if p.get("k") == "Block"), None)
        # one assignment site shared by both cases (`let group = found.unwrap_or_else(|| { push new table; .. }); groups[col] = group;`)
        # is checked like the existing-group case: the rows are marked in the table indexed by the assigned value
        shared = len(assigns) == 1 and asg["r"].get("k") == "Path"
        key = "%s:marking:%s" % (key0, "shared" if shared else "existing" if asg["r"].get("k") == "Path" and not tast.contains(blk, lambda z: z.get("k") == "MethodCall" and z.get("name") == "push") else "new")
        loops = tast.find(blk, lambda z: z.get("k") == "For")
        marks = []
        for lp in loops:
            for st in tast.find(lp["body"], lambda z: z.get("k") == "Assign" and z["r"].get("k") == "Lit" and z["r"].get("lk") == "Bool"):
                marks.append((lp, st))
        if not marks:
            rep.violation(key0, key, "a column is assigned to a group (`%s`) without marking its rows as used in that group: a later column sharing a row is admitted to the same group" % tast.render(asg)[:60], asg.get("sp"))
            continue
        lp, st = marks[0]
        probs = []
        if not bool(st["r"]["v"]):
            probs.append("rows are marked `false`")
        row_ids = {q["id"] for q in tast.find(lp["pat"], lambda q: q.get("k") == "PBind")}
        idx = st["l"]
        if not (idx.get("k") == "Index" and tast.contains(idx["i"], lambda q: q.get("k") == "Path" and q.get("id") in row_ids)):
            probs.append("the marked entry is not indexed by the row")
        if tast.contains(lp["body"], lambda z: z.get("k") in ("Break", "Continue", "Return")) or tast.contains(lp["body"], lambda z: z.get("k") == "If"):
            probs.append("not every row is marked (conditional / early exit in the marking loop)")
        # the loop ranges over the rows of this column (same source as the admission test's receiver)
        if tests and len(tests) == 1:
            recv_ids = {q.get("id") for q in tast.find(tests[0]["recv"], lambda q: q.get("k") == "Path" and q.get("res") == "local")}
            it_ids = {q.get("id") for q in tast.find(lp["iter"], lambda q: q.get("k") == "Path" and q.get("res") == "local")}
            if recv_ids and not (recv_ids & it_ids):
                probs.append("the marking loop does not range over the rows that were tested")
        # existing group: table index is the assigned group value
        if key.endswith(("existing", "shared")) and idx.get("k") == "Index" and idx["e"].get("k") == "Index":
            gi = idx["e"]["i"]
            if not (gi.get("k") == "Path" and asg["r"].get("k") == "Path" and gi.get("id") == asg["r"].get("id")):
                probs.append("rows are marked in the table of a different group than the one assigned")
        if probs:
            rep.violation(key0, key, "; ".join(probs) + ": the `rows used in this group` table no longer describes the group, two columns sharing a row can be perturbed together", st.get("sp"))
        else:
            n_ok += 1
            rep.ok(key0, key, "every row of the column is marked true in the assigned group's table")


def r_py_jac_copy(rep, f):
    """a Jacobian / mass matrix returned by Python is copied entry (r, c) -> j[(r, c)] in every dtype branch: the index
    pair of the numpy `get([..])` equals the pair of the Matrix element assigned (sibling branches must agree)"""
    key0 = "R-PY-JAC-COPY"
    n = 0
    for b in f.body_list:
        if not b["def"].startswith(("python::ivp_wrapper::", "<python::ivp_wrapper::")):
            continue
        for asg in tast.find(b["body"], lambda z: z.get("k") == "Assign" and z["l"].get("k") == "Index" and "Matrix" in (z["l"].get("base_ty") or "")
                             and z["l"]["i"].get("k") == "Tuple" and len(z["l"]["i"]["elems"]) == 2):
            gets = tast.find(asg["r"], lambda q: q.get("k") == "MethodCall" and q.get("name") in ("get", "get_owned", "uget") and q["args"] and q["args"][0].get("k") in ("Array", "Tuple")
                             and len(q["args"][0]["elems"]) == 2)
            if not gets:
                continue
            n += 1
            rep.fn(b["def"])
            lhs = [x.get("id") for x in asg["l"]["i"]["elems"]]
            rhs = [x.get("id") for x in gets[0]["args"][0]["elems"]]
            key = "%s:%s:site%d" % (key0, b["def"].split("::")[-1], n)
            if None in lhs or None in rhs:
                rep.inconc(key0, key, "index expressions are not plain locals: `%s`" % tast.render(asg)[:80])
            elif lhs == rhs:
                rep.ok(key0, key, "j[(r, c)] <- array[r, c]")
            else:
                rep.violation(key0, key, "`%s`: the matrix entry and the array entry use different index orders - the Jacobian reaches the solver transposed in this dtype branch" % tast.render(asg)[:100], asg.get("sp"))
    if n < 3:
        rep.inconc(key0, key0 + ":floor", "only %d array-to-Matrix copy sites found (expected >= 3)" % n)


FLOAT_KEYS = {"direction", "rtol", "atol", "max_step", "min_step", "first_step"}
INT_TYS = ("i8", "i16", "i32", "i64", "isize", "u8", "u16", "u32", "u64", "usize")


def r_py_float_extract(rep, f):
    """values SciPy documents as floats (the event attribute `direction`, rtol/atol, max_step, first_step) are extracted
    from Python as floats: an integer extraction fails for 1.0 / np.float64 and - the failure being dropped by the
    surrounding `if let Ok(..)` / `.ok()` / `unwrap_or` - silently turns the setting off."""
    n = 0
    seen = set()

    def inner_ty(t):
        t = t or ""
        return t[len("std::result::Result<"):].rsplit(", pyo3::PyErr>", 1)[0] if t.startswith("std::result::Result<") else t

    def judge(key, kname, tys, node):
        nonlocal n
        if key in seen:
            return
        seen.add(key)
        n += 1
        ints = [t for t in tys if t in INT_TYS or any(t == "std::vec::Vec<%s>" % it for it in INT_TYS) or any(t == "std::option::Option<%s>" % it for it in INT_TYS)]
        floats = [t for t in tys if "f64" in t or "f32" in t]
        if ints and not (floats and tys.index(floats[0]) < tys.index(ints[0])):
            rep.violation("R-PY-FLOAT", key, "`%s` is extracted from Python as %s before any float extraction: a float value (1.0, numpy.float64) fails the extraction and the "
                          "setting is silently ignored" % (kname, ints[0]), node.get("sp"))
        elif not floats:
            rep.inconc("R-PY-FLOAT", key, "extraction type(s) %s of `%s` not understood" % (tys, kname), node.get("sp"))
        else:
            rep.ok("R-PY-FLOAT", key, "`%s` extracted as %s" % (kname, floats[0]))
    is_key = lambda q: q.get("k") == "Lit" and q.get("lk") == "Str" and q.get("v") in FLOAT_KEYS
    for fn in (PY + "parse_events", PY + "parse_options"):
        b = f.bodies.get(fn)
        if b is None:
            rep.inconc("R-PY-FLOAT", "R-PY-FLOAT:%s" % fn, "function not found in the python cfg")
            continue
        rep.fn(fn)
        short = fn.split("::")[-1]
        # (1) direct lookups: getattr("key") / get_item("key"); the extractions belong to the statement (or the if) around it
        for look, parents in tast.find_with_parents(b["body"], lambda q: q.get("k") == "MethodCall" and q.get("name") in ("getattr", "get_item") and q.get("args") and is_key(q["args"][0])):
            kname = look["args"][0]["v"]
            cont = None
            for a in parents:
                if a.get("k") == "If" and tast.contains(a["cond"], lambda z: z is look):
                    cont = a
                    break
            if cont is None:
                for a in reversed(parents):
                    if a.get("k") in ("Let", "ExprStmt", "Semi", "Assign"):
                        cont = a
                        break
            if cont is None:
                continue
            exs = tast.find(cont, lambda z: z.get("k") == "MethodCall" and z.get("name") == "extract")
            if not exs:
                continue
            judge("R-PY-FLOAT:%s:%s" % (short, kname), kname, [inner_ty(mc.get("ty")) for mc in exs], exs[0])
        # (2) lookups through a private helper: helper(opts, "key")
        for call in tast.find(b["body"], lambda q: q.get("k") == "Call" and (q.get("def") or "").startswith(PY) and any(is_key(a_) for a_ in q.get("args", []))):
            kname = next(a_["v"] for a_ in call["args"] if is_key(a_))
            cty = call.get("ty") or ""
            tys = []
            if "f64" in cty or any(("<%s>" % it) in cty for it in INT_TYS):
                tys = [cty.replace("std::option::Option<", "").rstrip(">")]
            else:
                cb = f.bodies.get(call["def"])
                if cb is not None:
                    tys = [inner_ty(mc.get("ty")) for mc in tast.find(cb["body"], lambda z: z.get("k") == "MethodCall" and z.get("name") == "extract")]
            if tys:
                judge("R-PY-FLOAT:%s:%s" % (short, kname), kname, tys, call)
        # (3) lookups through a local closure: `let item = |key| ..get_item(key)..; let max_step = item("max_step").and_then(|v| v.extract().ok())`
        for call, parents in tast.find_with_parents(b["body"], lambda q: q.get("k") == "Call" and not (q.get("def") or "").startswith(PY) and any(is_key(a_) for a_ in q.get("args", []))
                                                    and isinstance(q.get("f"), dict) and q["f"].get("k") == "Path" and q["f"].get("res") == "local"):
            kname = next(a_["v"] for a_ in call["args"] if is_key(a_))
            cont = next((a for a in reversed(parents) if a.get("k") in ("Let", "ExprStmt", "Semi", "Assign")), None)
            if cont is None:
                continue
            exs = list(tast.find(cont, lambda z: z.get("k") == "MethodCall" and z.get("name") == "extract"))
            for cl in tast.find(cont, lambda z: z.get("k") == "Closure" and (z.get("def") or "") in f.bodies):
                exs += tast.find(f.bodies[cl["def"]]["body"], lambda z: z.get("k") == "MethodCall" and z.get("name") == "extract")
            if exs:
                judge("R-PY-FLOAT:%s:%s" % (short, kname), kname, [inner_ty(mc.get("ty")) for mc in exs], exs[0])
    if n < 5:
        rep.inconc("R-PY-FLOAT", "R-PY-FLOAT:floor", "only %d float-valued settings found (expected >= 5: direction, rtol, atol, max_step, first_step)" % n)


def r_py_sparsity_format(rep, f):
    """the sparsity pattern is read column by column (`col_to_rows[col] = indices[indptr[col]..indptr[col+1]]`), which is the
    meaning of `indices` / `indptr` only in compressed-sparse-COLUMN form: the conversion requested from SciPy must be
    `tocsc`. With `tocsr` the same arrays describe rows and the grouping works on the transposed pattern."""
    fn = "python::sparsity::SparsityStructure::from_python"
    key = "R-PY-SPARSITY:%s" % fn
    b = f.bodies.get(fn)
    if b is None:
        rep.inconc("R-PY-SPARSITY", key, "from_python not found in the python cfg")
        return
    rep.fn(fn)
    conv = [q for q in tast.find(b["body"], lambda z: z.get("k") == "Lit" and z.get("lk") == "Str" and str(z.get("v", "")).startswith("to") and len(str(z.get("v"))) <= 8)]
    fields = set()
    for st in tast.find(b["body"], lambda z: z.get("k") == "Struct" and (z.get("def") or "").endswith("SparsityStructure")):
        fields |= {fl["name"] for fl in st.get("fields", [])}
    by_col = "col_to_rows" in fields
    by_row = "row_to_cols" in fields
    if not conv or not (by_col or by_row):
        rep.inconc("R-PY-SPARSITY", key, "format conversion (%s) or the per-column / per-row field (%s) not found" % ([c.get("v") for c in conv], sorted(fields)))
        return
    want = "tocsc" if by_col else "tocsr"
    bad = [c for c in conv if c.get("v") != want]
    if bad:
        rep.violation("R-PY-SPARSITY", key, "the pattern is stored per %s (`%s`) but converted with `%s()`: indices/indptr then describe the other axis and the column grouping runs on the transposed pattern"
                      % ("column" if by_col else "row", "col_to_rows" if by_col else "row_to_cols", bad[0].get("v")), bad[0].get("sp"))
    else:
        rep.ok("R-PY-SPARSITY", key, "pattern stored per %s and converted with %s()" % ("column" if by_col else "row", want))


def r_py_method(rep, f):
    """Method::from(&str) on the documented names"""
    key0 = "R-PY-METHOD"
    b = None
    for x in f.body_list:
        if x.get("impl_trait") == "std::convert::From" and x.get("impl_self") == "solve::options::Method" and "&str" in (x.get("impl_trait_ref") or ""):
            b = x
    if b is None:
        rep.inconc(key0, key0 + ":anchor", "impl From<&str> for Method not found")
        return
    # the conversion is a total function of a string: evaluate it exactly on the documented names, in several spellings
    want_ = {"RK45": "DOPRI5", "DOPRI5": "DOPRI5", "RK23": "RK23", "DOP853": "DOP853", "RADAU": "RADAU", "BDF": "BDF", "RK4": "RK4"}
    try:
        from cxs import CxS
        got_, case_ok = {}, True
        for k_, v_ in want_.items():
            for sp_ in (k_, k_.lower(), k_.capitalize()):
                r_ = CxS(f).call_fn(b["def"], [sp_])
                g_ = (r_.get("__variant") or "?").rsplit("::", 1)[-1] if isinstance(r_, dict) else repr(r_)
                if sp_ == k_:
                    got_[k_] = g_
                elif g_ != v_ and k_ not in ("RK45", "DOPRI5"):      # the default hides the spelling of these two
                    case_ok = False
        for k_, v_ in want_.items():
            if got_[k_] == v_:
                rep.ok(key0, "%s:%s" % (key0, k_), "%r -> Method::%s (evaluated)" % (k_, v_))
            else:
                rep.violation(key0, "%s:%s" % (key0, k_), "method name %r selects Method::%s (documented: %s)" % (k_, got_[k_], v_), b["body"].get("sp"))
        (rep.ok(key0, key0 + ":case", "names are matched case-insensitively ('Radau', 'radau')") if case_ok else
         rep.violation(key0, key0 + ":case", "method names are matched case-sensitively: the documented 'Radau' would fall back to the default", b["body"].get("sp")))
        return
    except Exception as ex_:
        rep.note("%s exact evaluation of Method::from(&str) not possible (%s): reading the match table instead" % (key0, str(ex_)[:120]))
    ms = tast.find(b["body"], lambda z: z.get("k") == "Match")
    if len(ms) != 1:
        rep.inconc(key0, key0 + ":match", "match not found")
        return
    table = {}

    def lits(p):
        if p["k"] == "PLit":
            return [p.get("v")]
        if p["k"] == "POr":
            out = []
            for q in p["pats"]:
                out += lits(q)
            return out
        return []
    for a in ms[0]["arms"]:
        body = a["body"]
        d = (body.get("def") or "").split("::")[-1]
        for l in lits(a["pat"]):
            table[l] = d
    want = {"RK45": "DOPRI5", "DOPRI5": "DOPRI5", "RK23": "RK23", "DOP853": "DOP853", "RADAU": "RADAU", "BDF": "BDF", "RK4": "RK4"}
    def scrut_exprs(e, depth=0):
        """the scrutinee and, through single-assignment locals, the expressions it is computed from"""
        out = [e]
        if depth < 4:
            for p_ in tast.find(e, lambda q: q.get("k") == "Path" and q.get("res") == "local"):
                lets = tast.find(b["body"], lambda z: z.get("k") == "Let" and z["pat"].get("id") == p_.get("id") and z.get("init") is not None)
                if len(lets) == 1:
                    out += scrut_exprs(lets[0]["init"], depth + 1)
        return out
    upper = any(tast.contains(x, lambda q: q.get("k") == "MethodCall" and q.get("name") in ("to_uppercase", "to_ascii_uppercase")) for x in scrut_exprs(ms[0]["scrut"]))
    for k, v in want.items():
        key = "%s:%s" % (key0, k)
        if table.get(k) == v:
            rep.ok(key0, key, "%r -> Method::%s" % (k, v))
        else:
            rep.violation(key0, key, "method name %r selects Method::%s (documented: %s)" % (k, table.get(k), v), ms[0].get("sp"))
    (rep.ok(key0, key0 + ":case", "names are matched case-insensitively ('Radau')") if upper else
     rep.violation(key0, key0 + ":case", "method names are matched case-sensitively: the documented 'Radau' would fall back to the default", ms[0].get("sp")))


def _fd_canon(body_fn, e, depth=0):
    """canonical form of a scalar expression: immutable locals replaced by their definitions, loop variables by J,
    parameters by (type, position among parameters of that type)"""
    b = body_fn["body"]
    while e is not None and (e.get("k") in ("DropTemps", "Paren", "Cast", "AddrOf") or (e.get("k") == "Unary" and e.get("op") == "Deref")):
        e = e["e"]
    if e is None or depth > 20:
        return ("?",)
    k = e.get("k")
    if k == "Lit":
        try:
            return ("lit", float(str(e.get("v")).replace("_", "")))
        except ValueError:
            return ("lit", str(e.get("v")))
    if k == "Path":
        if e.get("res") == "local":
            params = [p for p in body_fn.get("params", []) if p.get("k") == "PBind"]
            for p in params:
                if p.get("id") == e.get("id"):
                    same = [q for q in params if q.get("ty") == p.get("ty")]
                    return ("param", p.get("ty"), same.index(p))
            for fo in tast.find(b, lambda z: z.get("k") == "For"):
                if tast.contains(fo["pat"], lambda z: z.get("k") == "PBind" and z.get("id") == e.get("id")):
                    # `for (j, &yj) in y.iter().enumerate()`: the index is J, the element is y[J]; `for &yj in y.iter()` likewise
                    it = fo["iter"]
                    while it.get("k") in ("DropTemps", "Paren"):
                        it = it["e"]
                    enum = False
                    if it.get("k") == "MethodCall" and it.get("name") == "enumerate":
                        enum = True
                        it = it["recv"]
                    base = None
                    while it.get("k") == "MethodCall" and it.get("name") in ("iter", "copied", "cloned", "into_iter", "iter_mut"):
                        base = it["recv"]
                        it = it["recv"]
                    if it.get("k") == "AddrOf":
                        base = it["e"]
                    pat = fo["pat"]
                    while pat.get("k") in ("PRef", "PDeref"):
                        pat = pat["pat"]
                    if enum and pat.get("k") == "PTuple" and len(pat["pats"]) == 2:
                        if tast.contains(pat["pats"][0], lambda z: z.get("k") == "PBind" and z.get("id") == e.get("id")):
                            return ("J",)
                        if base is not None:
                            return ("idx", _fd_canon(body_fn, base, depth + 1), ("J",))
                    if not enum and base is not None and "f64" in (e.get("ty") or ""):
                        return ("idx", _fd_canon(body_fn, base, depth + 1), ("J",))
                    return ("J",)
            lets = tast.find(b, lambda z: z.get("k") == "Let" and z["pat"].get("k") == "PBind" and z["pat"].get("id") == e.get("id") and z.get("init") is not None)
            if len(lets) == 1 and "Mut" not in (lets[0]["pat"].get("mode") or "").split(",")[-1] and not tast.contains(b, lambda z: z.get("k") in ("Assign", "AssignOp") and z["l"].get("k") == "Path" and z["l"].get("id") == e.get("id")):
                return _fd_canon(body_fn, lets[0]["init"], depth + 1)
            return ("local", e.get("name"))
        return ("def", e.get("def"))
    if k == "Binary":
        l, r = _fd_canon(body_fn, e["l"], depth + 1), _fd_canon(body_fn, e["r"], depth + 1)
        if e["op"] in ("Add", "Mul") and repr(r) < repr(l):
            l, r = r, l
        return (e["op"], l, r)
    if k == "Unary":
        return (e.get("op"), _fd_canon(body_fn, e["e"], depth + 1))
    if k == "MethodCall":
        return ("m:" + (e.get("def") or e.get("name") or ""), _fd_canon(body_fn, e["recv"], depth + 1)) + tuple(_fd_canon(body_fn, a, depth + 1) for a in e["args"])
    if k == "Call":
        return ("c:" + (e.get("def") or ""),) + tuple(_fd_canon(body_fn, a, depth + 1) for a in e["args"])
    if k == "Index":
        return ("idx", _fd_canon(body_fn, e["e"], depth + 1), _fd_canon(body_fn, e["i"], depth + 1))
    if k == "Field":
        return ("fld", e.get("name"), _fd_canon(body_fn, e["e"], depth + 1))
    return (k,)


def r_py_fd_step(rep, f):
    """the finite-difference Jacobians a Python run can use (the binding's dense fallback, its sparsity-grouped variant) and
    the Rust default IVP::jac a Rust run uses perturb column j by the same amount: the increment added to y[j] is the same
    expression of y[j] in all of them, so the no-jac results agree and a sparsity pattern changes only the evaluation count"""
    key = "R-PY-FD-STEP"
    fns = [n for n in ("ivp::IVP::jac", "python::ivp_wrapper::PythonIVP::<'py>::jac_fd", "python::ivp_wrapper::PythonIVP::jac_fd", "python::sparsity::sparse_jacobian_fd") if n in f.bodies]
    fns += [n for n in f.bodies if n.endswith("::jac_fd") and n not in fns]
    if len(fns) < 3:
        rep.inconc(key, key + ":anchor", "finite-difference Jacobians not found (%s)" % fns)
        return
    forms = {}
    for fn in fns:
        b = f.bodies[fn]
        rep.fn(fn)
        # y_pert[j] = y[j] + P
        incs = []
        for a in tast.find(b["body"], lambda z: z.get("k") == "Assign" and z["l"].get("k") == "Index" and z["r"].get("k") == "Binary" and z["r"]["op"] == "Add"):
            c = _fd_canon(b, a["r"])
            base = ("idx", None, ("J",))
            sides = [c[1], c[2]]
            ys = [s_ for s_ in sides if s_[0] == "idx" and s_[2] == ("J",) and s_[1][0] == "param"]
            if len(ys) == 1:
                other = sides[1] if sides[0] is ys[0] else sides[0]
                incs.append((other, ys[0], a))
        if not incs:
            # the loop may have been moved into a private helper of the same function (`jac_fd_dense`)
            for c_ in tast.find(b["body"], lambda z: z.get("k") in ("Call", "MethodCall") and (z.get("def") or "") in f.bodies and (z.get("def") or "") not in fns and f.inlinable(z.get("def") or "")):
                hb = f.bodies[c_["def"]]
                for a in tast.find(hb["body"], lambda z: z.get("k") == "Assign" and z["l"].get("k") == "Index" and z["r"].get("k") == "Binary" and z["r"]["op"] == "Add"):
                    c = _fd_canon(hb, a["r"])
                    sides = [c[1], c[2]]
                    ys = [s_ for s_ in sides if s_[0] == "idx" and s_[2] == ("J",) and s_[1][0] == "param"]
                    if len(ys) == 1:
                        incs.append((sides[1] if sides[0] is ys[0] else sides[0], ys[0], a))
        if len(incs) != 1:
            rep.inconc(key, "%s:%s" % (key, fn), "expected one perturbation `yp[j] = y[j] + step` in %s, found %d" % (fn, len(incs)))
            return
        forms[fn] = incs[0]
    ref_fn = fns[0]
    ref = forms[ref_fn][0]
    bad = [fn for fn in fns[1:] if forms[fn][0] != ref]
    def show(c):
        if not isinstance(c, tuple):
            return str(c)
        h = c[0]
        if h == "lit":
            return "%g" % c[1] if isinstance(c[1], float) else str(c[1])
        if h == "param":
            return "y" if "[f64]" in (c[1] or "") else "p%d" % c[2]
        if h == "J":
            return "j"
        if h == "idx":
            return "%s[%s]" % (show(c[1]), show(c[2]))
        if h == "def":
            return (c[1] or "").rsplit("::", 1)[-1]
        if h in ("Add", "Sub", "Mul", "Div"):
            return "(%s %s %s)" % (show(c[1]), {"Add": "+", "Sub": "-", "Mul": "*", "Div": "/"}[h], show(c[2]))
        if h.startswith("m:"):
            return "%s.%s(%s)" % (show(c[1]), h.rsplit("::", 1)[-1], ", ".join(show(x) for x in c[2:]))
        if h.startswith("c:"):
            return "%s(%s)" % (h.rsplit("::", 1)[-1], ", ".join(show(x) for x in c[1:]))
        return "%s(%s)" % (h, ", ".join(show(x) for x in c[1:]))
    for fn in bad:
        rep.violation(key, "%s:%s" % (key, fn), "%s perturbs y[j] by `%s` while %s uses `%s`: a Python run without `jac` (or with / without `jac_sparsity`) no longer computes the Jacobian the Rust run computes, and the results differ"
                      % (fn, show(forms[fn][0])[:90], ref_fn, show(ref)[:90]), forms[fn][2].get("sp"))
    if not bad:
        rep.ok(key, key, "%d finite-difference Jacobians (%s) add the same increment to y[j]" % (len(fns), ", ".join(x.rsplit("::", 1)[-1] for x in fns)))


def r_py_event_fresh(rep, f):
    """SciPy reads `terminal` and `direction` per event function.  The binding collects one EventConfig per callable in a loop;
    the value it pushes for a callable must be built from defaults inside that iteration - a configuration object that lives
    across iterations and is only modified when an attribute is present hands the attributes of one event to all later ones.
    Rule: in every loop of the binding that pushes a local into an output collection, that local is declared inside the loop
    body (or unconditionally re-assigned at the top level of the body before its first other use)."""
    n_push = 0
    for b in f.body_list:
        fn = b["def"]
        if not fn.startswith("python::") or "::{closure" in fn:
            continue
        for lp in tast.find(b["body"], lambda z: z.get("k") == "For"):
            body = lp["body"]
            for c in tast.find(body, lambda z: z.get("k") == "MethodCall" and z.get("name") == "push" and len(z.get("args", [])) == 1):
                a = c["args"][0]
                while a.get("k") in ("DropTemps", "Paren"):
                    a = a["e"]
                if a.get("k") == "MethodCall" and a.get("name") == "clone" and a["recv"].get("k") in ("Path", "AddrOf"):
                    a = a["recv"]["e"] if a["recv"].get("k") == "AddrOf" else a["recv"]
                if a.get("k") != "Path" or a.get("res") != "local":
                    continue
                vid = a["id"]
                # only accumulators: the local is modified somewhere in the loop body besides its initialisation
                def mutates(z):
                    if z.get("k") in ("Assign", "AssignOp") and tast.contains(z["l"], lambda q: q.get("k") == "Path" and q.get("id") == vid):
                        return True
                    if z.get("k") == "MethodCall" and z is not c:
                        r_ = z["recv"]
                        while r_.get("k") in ("AddrOf", "Field", "Deref"):
                            r_ = r_["e"]
                        # the receiver is borrowed mutably: automatically (adjustment M) or explicitly
                        return r_.get("k") == "Path" and r_.get("id") == vid and (r_.get("adj") == "M" or (z["recv"].get("k") == "AddrOf" and bool(z["recv"].get("mut"))))
                    return False
                muts = tast.find(body, mutates)
                if not muts:
                    continue
                n_push += 1
                key = "R-PY-EVENT-FRESH:%s:%s" % (fn, a.get("name"))
                declared_inside = tast.contains(body, lambda z: z.get("k") == "Let" and tast.contains(z["pat"], lambda q: q.get("k") == "PBind" and q.get("id") == vid))
                stmts = body.get("stmts", []) if body.get("k") == "Block" else []
                reset_first = False
                for st in stmts:
                    e_ = st.get("e") if st.get("k") in ("Semi", "Expr") else st
                    if isinstance(e_, dict) and e_.get("k") == "Assign" and e_["l"].get("k") == "Path" and e_["l"].get("id") == vid:
                        reset_first = True
                        break
                    if tast.contains(st, lambda q: q.get("k") == "Path" and q.get("id") == vid):
                        break
                if declared_inside or reset_first:
                    rep.ok("R-PY-EVENT-FRESH", key, "`%s` is built anew in every iteration before it is modified and pushed" % a.get("name"))
                else:
                    rep.violation("R-PY-EVENT-FRESH", key, "`%s` is pushed once per item but lives across the iterations and is only modified conditionally: what one item set "
                                  "(an event's terminal / direction attribute) is inherited by every later item" % a.get("name"), c.get("sp"))
    if n_push < 1:
        rep.inconc("R-PY-EVENT-FRESH", "R-PY-EVENT-FRESH:floor", "no per-item accumulator pushed in a loop of the binding was found (expected parse_events' EventConfig)")


def r_py_getitem(rep, f):
    """dictionary-style access to the result (`res["y_events"]`) returns the attribute of that name: in every arm of
    PyOdeResult.__getitem__ whose pattern is a string that names a field of the result, the arm reads that field and no other"""
    ADT = "python::result::PyOdeResult"
    fns = [b for b in f.body_list if b["def"].startswith(ADT) and b["def"].endswith("::__getitem__")]
    if not fns:
        rep.note("R-PY-GETITEM: PyOdeResult has no __getitem__ in this build")
        return
    adt = f.adts.get(ADT) or {}
    fields = {fl.get("name") for v_ in adt.get("variants", []) for fl in v_.get("fields", [])} | {fl.get("name") for fl in adt.get("fields", [])}
    n = 0
    for b in fns:
        rep.fn(b["def"])
        for m in tast.find(b["body"], lambda z: z.get("k") == "Match" and any(tast.contains(a["pat"], lambda q: q.get("k") == "PLit" and q.get("lk") == "Str") for a in z.get("arms", []))):
            for a in m["arms"]:
                keys = [str(q.get("v")) for q in tast.find(a["pat"], lambda q: q.get("k") == "PLit" and q.get("lk") == "Str")]
                keys = [k_ for k_ in keys if k_ in fields]
                if not keys:
                    continue
                read = {(q.get("fdef") or "").rsplit("::", 1)[-1] for q in tast.find(a["body"], lambda q: q.get("k") == "Field" and (q.get("fdef") or "").startswith(ADT + "::"))}
                for k_ in keys:
                    n += 1
                    key = "R-PY-GETITEM:%s" % k_
                    if read == {k_}:
                        rep.ok("R-PY-GETITEM", key, "res[%r] reads the field %s" % (k_, k_))
                    else:
                        rep.violation("R-PY-GETITEM", key, "res[%r] reads the field(s) %s: dictionary-style access returns another attribute than `res.%s`" % (k_, sorted(read) or "none", k_), a["body"].get("sp"))
    if n < 4:
        rep.inconc("R-PY-GETITEM", "R-PY-GETITEM:floor", "only %d string keys naming result fields found in __getitem__ (expected >= 4)" % n)


def run(rep, tier):
    f = facts.load("python")
    rep.rule("R-PY-OPTS", "dict key -> tuple slot of parse_options -> destructured binding -> Options builder setter agree by name; method/t_eval/dense_output reach their setters; one call to solve::solve_ivp")
    rep.rule("R-PY-STATUS", "Status -> int table over all variants is {Success: 0, UserInterrupt: 1, else: -1}; success = status >= 0")
    rep.rule("R-PY-STATS", "nfev/njev/nlu are copied from the Rust solution by name")
    rep.rule("R-PY-TRANSPOSE", "flat index state*n_times + time agrees with reshape((n_states, n_times)); y_events flattened event-major agrees with reshape((n_events, n_states))")
    rep.rule("R-PY-ARGS", "every invocation of fun / jac / event callables passes the tuple from build_call_args, which appends every extra arg")
    rep.rule("R-PY-SOL", "PyOdeSolution evaluates through ContinuousOutput::evaluate_extrapolate")
    rep.rule("R-PY-METHOD", "Method::from(&str) maps the documented names (case-insensitively)")
    r_py_opts(rep, f)
    r_py_status(rep, f)
    r_py_transpose(rep, f)
    r_py_args(rep, f)
    r_py_sol(rep, f)
    r_py_method(rep, f)
    rep.rule("R-PY-JAC-COPY", "a Jacobian returned by Python is copied entry (r, c) -> j[(r, c)] in every dtype branch")
    r_py_jac_copy(rep, f)
    rep.rule("R-PY-COLOUR", "greedy column grouping: a column is admitted to a group exactly when none of its rows is marked there, and every assignment of a column marks all its rows in that group's table (test-and-mark discipline => no two columns of a group share a row)")
    r_py_colour(rep, f)
    rep.rule("R-PY-FLOAT", "settings SciPy documents as floats (event.direction, rtol, atol, max_step, first_step) are extracted as floats, not integers, where the failure of the extraction is silently dropped")
    r_py_float_extract(rep, f)
    rep.rule("R-PY-SPARSITY", "a sparsity pattern stored per column (col_to_rows) is read from SciPy's compressed-sparse-column form (tocsc)")
    r_py_sparsity_format(rep, f)
    rep.rule("R-PY-FD-STEP", "the dense and the sparsity-grouped finite-difference Jacobians of the binding and the Rust default IVP::jac add the same increment (as an expression of y[j]) to column j")
    r_py_fd_step(rep, f)
    rep.rule("R-PY-EVENT-FRESH", "a per-item value pushed in a loop of the binding (parse_events' EventConfig) is built anew inside the iteration, so one event's terminal/direction attributes cannot leak into the next")
    r_py_event_fresh(rep, f)
    rep.rule("R-PY-GETITEM", "dictionary-style access res[key] returns the attribute of that name: each string arm of PyOdeResult.__getitem__ that names a field reads that field and no other")
    r_py_getitem(rep, f)
    # the statistics the binding copies are the ones C18 pairs with evaluations (python cfg compiles the same solvers)
    rep.explanation = ("Decides the binding's plumbing tables on the `--features python` build (type-checked without a Python interpreter): option routing, status mapping, array layout, argument passing, "
                       "extrapolating evaluation, method names. NOT decided: numerical equality with the Rust API as an execution through CPython, NumPy dtype conversions, "
                       "and the greedy colouring invariant of group_columns (needs a loop-invariant proof, not a dataflow fact).")
    rep.assumptions = ["pyo3/numpy type-check offline from the cargo cache; nothing is executed"]
