"""C20 The Python binding returns the Rust solution in SciPy layout (plumbing tables, python cfg)."""
import facts
import tast
import C18

LEVEL = "other"
PY = "python::solve::"


def lit_value(e):
    if e is None:
        return None
    if e.get("k") == "Lit":
        return e.get("v")
    if e.get("k") == "Unary" and e["op"] == "Neg" and e["e"].get("k") == "Lit":
        return "-" + str(e["e"].get("v"))
    if e.get("k") == "Block" and not e.get("stmts") and e.get("tail") is not None:
        return lit_value(e["tail"])
    return None


def r_py_opts(rep, f):
    """dict key -> tuple position -> destructured binding -> builder setter agree by name"""
    po = f.bodies.get(PY + "parse_options")
    sv = f.bodies.get(PY + "solve_ivp_py")
    key0 = "R-PY-OPTS"
    if po is None or sv is None:
        rep.inconc(key0, key0 + ":anchor", "parse_options / solve_ivp_py not found in the python cfg")
        return
    rep.fn(po["def"])
    rep.fn(sv["def"])
    # (1) provenance of each local in parse_options: the dict key under which it is assigned
    prov = {}
    for i_ in tast.find(po["body"], lambda z: z.get("k") == "If" and z["cond"].get("k") == "LetExpr"
                        and tast.contains(z["cond"]["init"], lambda q: q.get("k") == "MethodCall" and q.get("name") == "get_item")):
        gi = tast.find(i_["cond"]["init"], lambda q: q.get("k") == "MethodCall" and q.get("name") == "get_item")[0]
        k = gi["args"][0]
        kv = k.get("v") if k.get("k") == "Lit" else None
        for a in tast.find(i_["then"], lambda z: z.get("k") == "Assign" and z["l"].get("k") == "Path"):
            prov.setdefault(a["l"]["id"], set()).add(kv)
    # (2) the returned tuple
    rets = tast.find(po["body"], lambda z: z.get("k") == "Tuple" and len(z["elems"]) >= 4 and all(e.get("k") == "Path" for e in z["elems"]))
    if len(rets) != 1:
        rep.inconc(key0, key0 + ":tuple", "returned option tuple not found")
        return
    order = []
    for e in rets[0]["elems"]:
        ks = prov.get(e.get("id"), set())
        order.append(next(iter(ks)) if len(ks) == 1 else None)
    for j, (e, k) in enumerate(zip(rets[0]["elems"], order)):
        key = "%s:parse_options:slot%d" % (key0, j)
        if k is None:
            rep.violation(key0, key, "tuple slot %d (`%s`) is filled from %s dict keys" % (j, e.get("name"), sorted(prov.get(e.get("id"), []))), e.get("sp"))
        else:
            rep.ok(key0, key, "slot %d <- options[%r]" % (j, k))
    # (3) destructuring in solve_ivp_py
    lets = tast.find(sv["body"], lambda z: z.get("k") == "Let" and z["pat"].get("k") == "PTuple" and z.get("init") is not None
                     and tast.contains(z["init"], lambda q: q.get("k") == "Call" and (q.get("def") or "") == PY + "parse_options"))
    if len(lets) != 1 or len(lets[0]["pat"]["pats"]) != len(order):
        rep.violation(key0, key0 + ":destructure", "solve_ivp_py does not destructure the %d-tuple returned by parse_options" % len(order), sv.get("sp"))
        return
    bind = {p["id"]: order[j] for j, p in enumerate(lets[0]["pat"]["pats"]) if p.get("k") == "PBind"}
    # (4) builder setters
    n = 0
    for c in tast.find(sv["body"], lambda z: z.get("k") == "MethodCall" and "OptionsBuilder" in (z.get("def") or "") and len(z["args"]) == 1):
        a = c["args"][0]
        if a.get("k") == "Path" and a.get("id") in bind:
            n += 1
            setter = c["name"][6:] if c["name"].startswith("maybe_") else c["name"]
            key = "%s:setter:%s" % (key0, c["name"])
            if bind[a["id"]] == setter:
                rep.ok(key0, key, "options[%r] -> .%s(..)" % (bind[a["id"]], c["name"]))
            else:
                rep.violation(key0, key, "the value parsed from options[%r] is passed to the builder setter .%s(..)" % (bind[a["id"]], c["name"]), c.get("sp"))
    if n < len(order):
        rep.violation(key0, key0 + ":unused", "only %d of the %d parsed options reach a builder setter" % (n, len(order)), sv.get("sp"))
    # direct arguments: dense_output / t_eval / method
    for name, want in (("dense_output", "dense_output"), ("maybe_t_eval", "t_eval"), ("method", "method")):
        cs = tast.find(sv["body"], lambda z: z.get("k") == "MethodCall" and "OptionsBuilder" in (z.get("def") or "") and z.get("name") == name)
        key = "%s:setter:%s" % (key0, name)
        if len(cs) == 1 and tast.contains(cs[0]["args"][0], lambda q: q.get("k") == "Path" and want in (q.get("name") or "")):
            rep.ok(key0, key, ".%s(%s)" % (name, tast.render(cs[0]["args"][0])))
        else:
            rep.violation(key0, key, "the %s argument does not reach Options::%s" % (want, name), sv.get("sp"))
    # single call to the Rust solve_ivp
    calls = tast.find(sv["body"], lambda z: z.get("k") == "Call" and z.get("def") == "solve::solve_ivp::solve_ivp")
    if len(calls) == 1:
        rep.ok(key0, key0 + ":single-call", "one call to solve::solve_ivp")
    else:
        rep.violation(key0, key0 + ":single-call", "%d calls to the Rust solve_ivp" % len(calls), sv.get("sp"))


def r_py_status(rep, f):
    br = f.bodies.get(PY + "build_result")
    key0 = "R-PY-STATUS"
    if br is None:
        rep.inconc(key0, key0 + ":anchor", "build_result not found")
        return
    rep.fn(br["def"])
    ms = [m for m in tast.find(br["body"], lambda z: z.get("k") == "Match") if tast.contains(m["scrut"], lambda q: q.get("k") == "Field" and q.get("name") == "status")]
    if len(ms) != 1:
        rep.inconc(key0, key0 + ":match", "status match not found")
        return
    adt = f.adts.get("status::Status")
    variants = [v["name"] for v in adt["variants"]] if adt else []
    table = {}
    default = None
    for a in ms[0]["arms"]:
        d = a["pat"].get("def") or a["pat"].get("ctor_of") or ""
        v = lit_value(a["body"])
        if a["pat"]["k"] == "PWild":
            default = v
        elif d.startswith("status::Status::"):
            table[d.split("::")[-1]] = v
    want = {"Success": "0", "UserInterrupt": "1"}
    for v in variants:
        got = table.get(v, default)
        exp = want.get(v, "-1")
        key = "%s:%s" % (key0, v)
        if str(got) == exp:
            rep.ok(key0, key, "%s -> %s" % (v, got))
        else:
            rep.violation(key0, key, "Status::%s is reported to Python as status %s (SciPy: %s)" % (v, got, exp), ms[0].get("sp"))
    if len(variants) < 5:
        rep.inconc(key0, key0 + ":floor", "only %d Status variants" % len(variants))
    # success = status >= 0
    lit = [s for s in tast.find(br["body"], lambda z: z.get("k") == "Struct" and "PyOdeResult" in (z.get("def") or ""))]
    if len(lit) == 1:
        fl = {x["name"]: x["e"] for x in lit[0]["fields"]}
        e = fl.get("success")
        ok = e is not None and e.get("k") == "Binary" and e["op"] == "Ge" and e["r"].get("k") == "Lit" and str(e["r"].get("v")) == "0"
        (rep.ok(key0, key0 + ":success", "success = status >= 0") if ok else rep.violation(key0, key0 + ":success", "success is %s, not status >= 0" % tast.render(e), (e or lit[0]).get("sp")))
        # statistics copied by name
        for nm in ("nfev", "nlu"):
            e = fl.get(nm)
            ok = e is not None and e.get("k") == "Field" and e.get("name") == nm
            (rep.ok("R-PY-STATS", "R-PY-STATS:%s" % nm, "%s <- sol.%s" % (nm, nm)) if ok else rep.violation("R-PY-STATS", "R-PY-STATS:%s" % nm, "PyOdeResult.%s is %s" % (nm, tast.render(e)), (e or lit[0]).get("sp")))
        e = fl.get("njev")
        ok = e is not None and tast.contains(e, lambda q: q.get("k") == "Field" and q.get("name") == "njev")
        (rep.ok("R-PY-STATS", "R-PY-STATS:njev", "njev <- sol.njev (0 for a constant Jacobian)") if ok else rep.violation("R-PY-STATS", "R-PY-STATS:njev", "PyOdeResult.njev is %s" % tast.render(e), lit[0].get("sp")))
    else:
        rep.inconc(key0, key0 + ":literal", "PyOdeResult literal not found")


def r_py_transpose(rep, f):
    br = f.bodies.get(PY + "build_result")
    key0 = "R-PY-TRANSPOSE"
    if br is None:
        return
    stores = tast.find_with_parents(br["body"], lambda z: z.get("k") == "Assign" and z["l"].get("k") == "Index" and z["l"]["e"].get("k") == "Path")
    cand = [(s, ps) for s, ps in stores if len([p for p in ps if p.get("k") == "For"]) == 2]
    if len(cand) != 1:
        rep.inconc(key0, key0 + ":store", "transposition store not found (%d candidates)" % len(cand))
        return
    s, ps = cand[0]
    fors = [p for p in ps if p.get("k") == "For"]
    outer, inner = fors[0], fors[1]

    def enum_idx(fr):
        # for (i, x) in it.enumerate()
        if fr["pat"].get("k") == "PTuple" and fr["pat"]["pats"][0].get("k") == "PBind" and tast.contains(fr["iter"], lambda q: q.get("k") == "MethodCall" and q.get("name") == "enumerate"):
            return fr["pat"]["pats"][0]["id"]
        return None
    oi, ii = enum_idx(outer), enum_idx(inner)
    idx = s["l"]["i"]
    # idx == J * N + I
    ok_form = False
    nvar = None
    if idx.get("k") == "Binary" and idx["op"] == "Add":
        for mul, add in ((idx["l"], idx["r"]), (idx["r"], idx["l"])):
            if mul.get("k") == "Binary" and mul["op"] == "Mul" and add.get("k") == "Path":
                fac = [mul["l"], mul["r"]]
                ids = [x.get("id") for x in fac if x.get("k") == "Path"]
                if add.get("id") == oi and ii in ids:
                    nv = [x for x in fac if x.get("k") == "Path" and x.get("id") != ii]
                    if nv:
                        ok_form = True
                        nvar = nv[0]
    if not ok_form:
        rep.violation(key0, key0 + ":index", "flat index is `%s`; for a (state, time) array it must be state_index * n_times + time_index" % tast.render(idx), idx.get("sp"))
        return
    # nvar is the length of the outer iterable
    lets = tast.find(br["body"], lambda z: z.get("k") == "Let" and z["pat"].get("id") == nvar.get("id"))
    outer_src = tast.render(outer["iter"]).split(".iter")[0]
    len_ok = bool(lets) and lets[0].get("init") is not None and tast.render(lets[0]["init"]).startswith(outer_src + ".len")
    # reshape((A, B)) with B == nvar
    rs = [c for c in tast.find(br["body"], lambda z: z.get("k") == "MethodCall" and z.get("name") == "reshape") if tast.contains(c["recv"], lambda q: q.get("k") == "Path" and q.get("id") == s["l"]["e"].get("id"))]
    shape_ok = False
    if len(rs) == 1 and rs[0]["args"][0].get("k") == "Tuple" and len(rs[0]["args"][0]["elems"]) == 2:
        a, b = rs[0]["args"][0]["elems"]
        shape_ok = b.get("k") == "Path" and b.get("id") == nvar.get("id") and a.get("k") == "Path" and a.get("id") != nvar.get("id")
    if len_ok and shape_ok:
        rep.ok(key0, key0 + ":y", "y_flat[state*n_times + time] reshaped to (n_states, n_times)")
    else:
        rep.violation(key0, key0 + ":y", "the flat index `%s` does not agree with reshape(%s): y would not have shape (n, m) in SciPy layout"
                      % (tast.render(idx), tast.render(rs[0]["args"][0]) if rs else "?"), s.get("sp"))
    # y_events: flat.extend(state) per event, reshape((n_ev, n_st))
    rs2 = [c for c in tast.find(br["body"], lambda z: z.get("k") == "MethodCall" and z.get("name") == "reshape") if c not in rs]
    key = key0 + ":y_events"
    if len(rs2) == 1 and rs2[0]["args"][0].get("k") == "Tuple":
        a, b = rs2[0]["args"][0]["elems"]
        la = tast.find(br["body"], lambda z: z.get("k") == "Let" and z["pat"].get("id") == a.get("id"))
        lb = tast.find(br["body"], lambda z: z.get("k") == "Let" and z["pat"].get("id") == b.get("id"))
        ok = bool(la and lb) and tast.render(la[0]["init"]).endswith(".len()") and "[0]" in tast.render(lb[0]["init"]) and "[0]" not in tast.render(la[0]["init"])
        (rep.ok(key0, key, "events flattened event-major and reshaped to (n_events, n_states)") if ok else
         rep.violation(key0, key, "y_events reshape(%s) does not match the event-major flattening" % tast.render(rs2[0]["args"][0]), rs2[0].get("sp")))
    else:
        rep.inconc(key0, key, "y_events reshape not found")


def r_py_args(rep, f):
    """every call of a user callable passes the tuple built by build_call_args, which appends every extra arg"""
    key0 = "R-PY-ARGS"
    n = 0
    for b in f.body_list:
        if not b["def"].startswith("<python::ivp_wrapper::PythonIVP") and not b["def"].startswith("python::ivp_wrapper::PythonIVP"):
            continue
        # locals bound from the wrapper's callable fields
        fields = ("fun", "jac", "event_funs", "events")
        is_cb_field = lambda q: q.get("k") == "Field" and q.get("name") in fields and (q.get("fdef") or "").startswith("python::ivp_wrapper::PythonIVP")
        cb_locals = set()
        for l in tast.find(b["body"], lambda z: z.get("k") in ("Let", "LetExpr") and z.get("init") is not None and tast.contains(z["init"], is_cb_field)):
            for pb in tast.find(l["pat"], lambda z: z.get("k") == "PBind"):
                cb_locals.add(pb["id"])
        for l in tast.find(b["body"], lambda z: z.get("k") == "For" and tast.contains(z["iter"], is_cb_field)):
            for pb in tast.find(l["pat"], lambda z: z.get("k") == "PBind"):
                cb_locals.add(pb["id"])
        for c in tast.find(b["body"], lambda z: z.get("k") == "MethodCall" and z.get("name") in ("call1", "call", "call0")):
            if not tast.contains(c["recv"], lambda q: is_cb_field(q) or (q.get("k") == "Path" and q.get("id") in cb_locals)):
                continue     # a method of some other Python object (e.g. sparse.toarray()), not one of the user's callables
            n += 1
            key = "%s:%s:%s" % (key0, b["def"].split("::")[-1], tast.render(c["recv"])[:30])
            a = c["args"][0] if c["args"] else None
            ok = False
            if c["name"] == "call1" and a is not None:
                src = a
                if a.get("k") == "Path" and a.get("res") == "local":
                    lets = tast.find(b["body"], lambda z: z.get("k") == "Let" and z["pat"].get("id") == a.get("id"))
                    src = lets[-1]["init"] if lets and lets[-1].get("init") else a
                ok = tast.contains(src, lambda q: q.get("k") == "MethodCall" and q.get("name") == "build_call_args")
            if ok:
                rep.ok(key0, key, "called with build_call_args(x, y)")
            else:
                rep.violation(key0, key, "a user callable is invoked as %s without the tuple from build_call_args: extra `args` do not reach it" % tast.render(c)[:80], c.get("sp"))
    bca = [b for b in f.body_list if b["def"].endswith("PythonIVP::<'py>::build_call_args") or b["def"].endswith("::build_call_args")]
    if bca:
        b = bca[0]
        loops = tast.find(b["body"], lambda z: z.get("k") == "For" and tast.contains(z["iter"], lambda q: q.get("k") == "Field" and q.get("name") == "args" or (q.get("k") == "Path" and "args" in (q.get("name") or ""))))
        pushes = [l for l in loops if tast.contains(l["body"], lambda q: q.get("k") == "MethodCall" and q.get("name") in ("push", "append", "extend"))]
        if pushes:
            rep.ok(key0, key0 + ":build_call_args", "appends every element of args")
        else:
            rep.violation(key0, key0 + ":build_call_args", "build_call_args does not append the extra args", b.get("sp"))
    else:
        rep.inconc(key0, key0 + ":build_call_args", "build_call_args not found")
    if n < 3:
        rep.inconc(key0, key0 + ":floor", "only %d callable invocations found (expected fun, jac, events)" % n)


def r_py_sol(rep, f):
    """PyOdeSolution evaluates through the extrapolating lookup (SciPy semantics), never the range-checked one"""
    key0 = "R-PY-SOL"
    n = 0
    for b in f.body_list:
        if "python::solution::PyOdeSolution" not in b["def"]:
            continue
        for c in tast.find(b["body"], lambda z: z.get("k") == "MethodCall" and (z.get("def") or "").startswith("solve::cont::ContinuousOutput::")):
            nm = c["def"].split("::")[-1]
            if nm in ("evaluate", "evaluate_extrapolate"):
                n += 1
                key = "%s:%s:%s" % (key0, b["def"].split("::")[-1], nm)
                if nm == "evaluate_extrapolate":
                    rep.ok(key0, key, "extrapolating evaluation")
                else:
                    rep.violation(key0, key, "%s uses the range-checked ContinuousOutput::evaluate: sol(t) outside the span would fail instead of extrapolating as SciPy does" % b["def"], c.get("sp"))
    if n < 2:
        rep.inconc(key0, key0 + ":floor", "only %d evaluation call sites in PyOdeSolution" % n)


def r_py_method(rep, f):
    """Method::from(&str) on the documented names"""
    key0 = "R-PY-METHOD"
    b = None
    for x in f.body_list:
        if x.get("impl_trait") == "std::convert::From" and x.get("impl_self") == "solve::options::Method" and "&str" in (x.get("impl_trait_ref") or ""):
            b = x
    if b is None:
        rep.inconc(key0, key0 + ":anchor", "impl From<&str> for Method not found")
        return
    ms = tast.find(b["body"], lambda z: z.get("k") == "Match")
    if len(ms) != 1:
        rep.inconc(key0, key0 + ":match", "match not found")
        return
    table = {}

    def lits(p):
        if p["k"] == "PLit":
            return [p.get("v")]
        if p["k"] == "POr":
            out = []
            for q in p["pats"]:
                out += lits(q)
            return out
        return []
    for a in ms[0]["arms"]:
        body = a["body"]
        d = (body.get("def") or "").split("::")[-1]
        for l in lits(a["pat"]):
            table[l] = d
    want = {"RK45": "DOPRI5", "DOPRI5": "DOPRI5", "RK23": "RK23", "DOP853": "DOP853", "RADAU": "RADAU", "BDF": "BDF", "RK4": "RK4"}
    def scrut_exprs(e, depth=0):
        """the scrutinee and, through single-assignment locals, the expressions it is computed from"""
        out = [e]
        if depth < 4:
            for p_ in tast.find(e, lambda q: q.get("k") == "Path" and q.get("res") == "local"):
                lets = tast.find(b["body"], lambda z: z.get("k") == "Let" and z["pat"].get("id") == p_.get("id") and z.get("init") is not None)
                if len(lets) == 1:
                    out += scrut_exprs(lets[0]["init"], depth + 1)
        return out
    upper = any(tast.contains(x, lambda q: q.get("k") == "MethodCall" and q.get("name") in ("to_uppercase", "to_ascii_uppercase")) for x in scrut_exprs(ms[0]["scrut"]))
    for k, v in want.items():
        key = "%s:%s" % (key0, k)
        if table.get(k) == v:
            rep.ok(key0, key, "%r -> Method::%s" % (k, v))
        else:
            rep.violation(key0, key, "method name %r selects Method::%s (documented: %s)" % (k, table.get(k), v), ms[0].get("sp"))
    (rep.ok(key0, key0 + ":case", "names are matched case-insensitively ('Radau')") if upper else
     rep.violation(key0, key0 + ":case", "method names are matched case-sensitively: the documented 'Radau' would fall back to the default", ms[0].get("sp")))


def run(rep, tier):
    f = facts.load("python")
    rep.rule("R-PY-OPTS", "dict key -> tuple slot of parse_options -> destructured binding -> Options builder setter agree by name; method/t_eval/dense_output reach their setters; one call to solve::solve_ivp")
    rep.rule("R-PY-STATUS", "Status -> int table over all variants is {Success: 0, UserInterrupt: 1, else: -1}; success = status >= 0")
    rep.rule("R-PY-STATS", "nfev/njev/nlu are copied from the Rust solution by name")
    rep.rule("R-PY-TRANSPOSE", "flat index state*n_times + time agrees with reshape((n_states, n_times)); y_events flattened event-major agrees with reshape((n_events, n_states))")
    rep.rule("R-PY-ARGS", "every invocation of fun / jac / event callables passes the tuple from build_call_args, which appends every extra arg")
    rep.rule("R-PY-SOL", "PyOdeSolution evaluates through ContinuousOutput::evaluate_extrapolate")
    rep.rule("R-PY-METHOD", "Method::from(&str) maps the documented names (case-insensitively)")
    r_py_opts(rep, f)
    r_py_status(rep, f)
    r_py_transpose(rep, f)
    r_py_args(rep, f)
    r_py_sol(rep, f)
    r_py_method(rep, f)
    # the statistics the binding copies are the ones C18 pairs with evaluations (python cfg compiles the same solvers)
    rep.explanation = ("Decides the binding's plumbing tables on the `--features python` build (type-checked without a Python interpreter): option routing, status mapping, array layout, argument passing, "
                       "extrapolating evaluation, method names. NOT decided: numerical equality with the Rust API as an execution through CPython, NumPy dtype conversions, "
                       "and the greedy colouring invariant of group_columns (needs a loop-invariant proof, not a dataflow fact).")
    rep.assumptions = ["pyo3/numpy type-check offline from the cargo cache; nothing is executed"]
