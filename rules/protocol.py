"""Shared protocol monitors (callback / accepted-step pairing)."""
import tast
import mon

SOLOUT = "solout::SolOut::solout"
SOLVERS = [("rk4", "RK4"), ("rk23", "RK23"), ("dopri5", "DOPRI5"), ("dop853", "DOP853"), ("radau", "RADAU"), ("bdf", "BDF")]


def solve_fn(mod, ty):
    return "methods::%s::%s::solve" % (mod, ty)


class AccMon(mon.Monitor):
    """state = (accepted increments since loop head [0..2], total increments [0..2], reached per-step callback)"""
    init = ((0, 0, False),)

    def __init__(self, fn, main):
        super().__init__()
        self.fn, self.main = fn, main
        self.in_main = 0

    def describe(self, ev):
        n = ev[1]
        return "%s @%s" % (tast.render(n) if n.get("k") == "AssignOp" else n.get("k"), n.get("sp"))

    def step(self, st, ev):
        kind, n = ev[0], ev[1]
        a, t, r = st
        if kind == "loop_head" and n is self.main:
            return ((0, 0, False),)
        if kind == "else" and is_solout_iflet(n):
            return ()   # the protocol is about runs with a callback installed
        if kind == "node":
            k = n.get("k")
            if k == "AssignOp" and n["l"].get("k") == "Field":
                fd = n["l"].get("fdef") or ""
                v = mon.is_lit_int(n["r"])
                if fd == "methods::Steps::accepted":
                    return ((min(2, a + (v if v is not None else 2)), t, r),)
                if fd == "methods::Steps::total":
                    return ((a, min(2, t + (v if v is not None else 2)), r),)
            if k == "MethodCall" and n.get("def") == SOLOUT and self.inside_main(n):
                if r:
                    self.violate("R-SOLOUT-ONCE:%s:second-call" % self.fn,
                                 "a second per-step SolOut callback is reachable within one iteration of the main loop; path: %s"
                                 % " -> ".join(self.cur_trail[-5:]), n, self.cur_trail)
                if a != 1:
                    self.violate("R-CNT-ACC:%s:callback:%d" % (self.fn, a),
                                 "the per-step SolOut callback is reached with Steps::accepted incremented %d time(s) in this iteration (must be exactly 1); path: %s"
                                 % (a, " -> ".join(self.cur_trail[-5:])), n, self.cur_trail)
                return ((1, t, True),)
        if kind == "latch" and n is self.main:
            if not r and a != 0:
                self.violate("R-CNT-ACC:%s:reject-cycle:%d" % (self.fn, a),
                             "an iteration that does not report a step increments Steps::accepted %d time(s); path: %s" % (a, " -> ".join(self.cur_trail[-5:])), n, self.cur_trail)
            if t < a:
                self.violate("R-CNT-ACC:%s:total<accepted" % self.fn, "an iteration increments Steps::accepted but not Steps::total", n, self.cur_trail)
            return ((0, 0, False),)
        return (st,)

    def inside_main(self, n):
        return n in self._main_calls

    def prepare(self):
        self._main_calls = tast.calls(self.main, SOLOUT)


def is_solout_iflet(n):
    c = n.get("cond") or {}
    return c.get("k") == "LetExpr" and "Option<&mut" in (c["init"].get("ty") or "") and (
        "S>" in c["init"].get("ty", "") or "SolOut" in c["init"].get("ty", ""))


def main_loop_of(body):
    loops = tast.find(body["body"], lambda x: x.get("k") == "Loop" and tast.calls(x, SOLOUT))
    return loops[0] if loops else None


def answer_idiom_unknown(body):
    """a SolOut call whose answer the analyses cannot follow: the models know `match sol.solout(..) {..}`, `let flag =
    sol.solout(..);` and `if let X = sol.solout(..)`; a call that is the value of a match / if arm (`let flag = match solout {
    Some(s) => s.solout(..), None => ControlFlag::Continue }`) merges the answer with a constant and is reported as not decided"""
    out = []
    for c, parents in tast.find_with_parents(body["body"], lambda z: z.get("k") == "MethodCall" and z.get("def") == SOLOUT):
        p_ = None
        for q in reversed(parents):
            if q.get("k") in ("DropTemps", "Paren", "Block") and q.get("k") != "Block":
                continue
            p_ = q
            break
        ok = False
        if p_ is not None:
            if p_.get("k") == "Match" and p_.get("scrut") is c:
                ok = True
            elif p_.get("k") == "Let" and p_.get("init") is c:
                ok = True
            elif p_.get("k") == "LetExpr" and p_.get("init") is c:
                ok = True
            elif p_.get("k") in ("ExprStmt", "Semi"):
                ok = True
            elif p_.get("k") == "Binary" and p_.get("op") in ("Eq", "Ne"):
                ok = True
        if not ok:
            out.append(c)
    return out


def acc_rule(rep, f, rule="R-CNT-ACC"):
    for mod, ty in SOLVERS:
        fn = "methods::%s::%s::solve" % (mod, ty)
        body = f.body(fn)
        main = main_loop_of(body)
        if main is None:
            rep.inconc("R-CNT-ACC", "R-CNT-ACC:%s" % fn, "no main loop with a SolOut callback")
            continue
        unk = answer_idiom_unknown(body)
        if unk:
            rep.inconc("R-CNT-ACC", "R-CNT-ACC:%s" % fn, "the callback's answer is merged with other values before it is tested (the call is the value of a match / if arm): the counting model does not follow that", unk[0].get("sp"))
            continue
        m = AccMon(fn, main)
        m.prepare()
        mon.Runner(m).run_fn(body)
        for key, msg, node, trail in m.violations:
            rep.violation(key.split(":")[0], key, msg, node.get("sp") if isinstance(node, dict) else None)
        if not m.violations:
            rep.ok(rule, "%s:%s" % (rule, fn), "accepted += 1 exactly once before the single per-step callback, never on other cycles")


