"""C01 Tolerance-controlled accuracy of every returned sample (tolerance plumbing only)."""
import facts
import aff
import tol

LEVEL = "other"


def run(rep, tier):
    f = facts.load("default")
    ctx = aff.Ctx(f)
    rep.rule("R-TOL-ONCE", "no loop stores into a Tolerance a value computed from the same Tolerance (a scalar tolerance aliases one cell: the transformation would be applied n times)")
    rep.rule("R-TOL-INDEX", "inside a component loop every Tolerance index is the loop's induction variable")
    rep.rule("R-ACCEPT-ONE", "all five error-controlled solvers accept exactly when the normalised error is <= 1")
    rep.rule("R-GRADE-SCALE", "every tolerance scale is homogeneous of degree 1 in the state: atol + rtol*|y| (not rtol + atol*|y|, not missing |y|)")
    rep.rule("R-GRADE", "the quantity compared with 1 is homogeneous of degree 0 in the state scale and in the number of copies (a per-component RMS norm)")
    rep.rule("R-AFF-EST", "the vector that is normalised is the embedded error estimator of the advertised order")
    rep.rule("R-TOL-ROUTE", "solve_ivp passes Options::rtol to each stepper's rtol parameter and Options::atol to atol")
    tol.r_tol_route(rep, f)
    tol.r_tol_once(rep, f)
    tol.r_tol_index(rep, f)
    tol.r_accept_one(rep, f)
    tol.r_grade_solvers(rep, f)
    tol.r_grade_norm_helpers(rep, f)
    for m in aff.EXPLICIT:
        if not m["est"]:
            continue
        t = aff.r_tableau(rep, ctx, m)
        if t is not None:
            aff.r_est(rep, ctx, m, t)
    rep.rule("R-TOL-FROM", "a tolerance passed as a vector stays per-component: every From<sequence> for Tolerance is evaluated exactly on vectors of length 1..4 for every coincidence pattern of the entries and component i reads back entry i")
    tol.r_tol_from(rep, f)
    rep.rule("R-TOL-ROUTE", "at every internal call that passes both tolerances on (hinit and helpers) the callee's atol receives the caller's atol and its rtol the caller's rtol")
    tol.r_tol_route_helpers(rep, f)
    rep.explanation = ("Decides tolerance PLUMBING, not accuracy: each component is scaled by its own atol[i] + rtol[i]*|y|, transformations of the tolerances are applied once, "
                       "the accept test is `normalised error <= 1`, the normalised quantity is scale- and copy-free, and it is the embedded estimator of the right order. "
                       "NOT decided: the error bound ~ steps*(atol+rtol|y|), monotonicity in the tolerance, RK4's observed convergence rate, controller tuning - numerical consequences of trajectories.")
