"""C13 Equivalent problems get equivalent answers (structural symmetry clauses)."""
import facts
import tol

LEVEL = "other"


def run(rep, tier):
    f = facts.load("default")
    rep.rule("R-TOL-ONCE", "scalar tolerance == constant vector: no loop-carried read-after-write through the Scalar alias")
    rep.rule("R-TOL-INDEX", "component i is scaled by tolerance component i")
    rep.rule("R-PARITY", "time reflection: the step taken, every stage offset and the next step are odd (a magnitude-valued step variable even)")
    rep.rule("R-GRADE", "duplication / power-of-two scaling: the accept operand has degree 0 in the number of copies and in the state scale")
    rep.rule("R-GRADE-BRANCH", "every comparison steering the step loop relates operands of equal degree in the state scale, or tests against zero")
    rep.rule("R-GRADE-COPIES", "the automatic initial step (hinit) has degree 0 in the number of copies")
    tol.r_tol_once(rep, f)
    tol.r_tol_index(rep, f)
    tol.r_parity(rep, f)
    tol.r_parity_hinit(rep, f)
    tol.r_grade_solvers(rep, f)
    tol.r_grade_norm_helpers(rep, f)
    tol.r_grade_branches(rep, f)
    tol.r_grade_hinit(rep, f)
    rep.rule("R-TOL-FROM", "a tolerance passed as a vector stays per-component: every From<sequence> for Tolerance is evaluated exactly on vectors of length 1..4 for every coincidence pattern of the entries and component i reads back entry i")
    tol.r_tol_from(rep, f)
    rep.rule("R-TOL-ROUTE", "at every internal call that passes both tolerances on (hinit and helpers) the callee's atol receives the caller's atol and its rtol the caller's rtol")
    tol.r_tol_route_helpers(rep, f)
    rep.rule("R-EVT-SORT", "events detected in one step are processed in the order of integration in both directions (time reflection must mirror which event ends a run)")
    import handler as H
    H.r_evt_sort(rep, H.HandlerCtx(f))
    rep.explanation = ("Decides the structural part of the symmetries: parity of every time-like quantity under reflection, homogeneity of every step-size decision input under scaling and duplication, "
                       "and alias-freedom of scalar tolerances. NOT decided: bit-identity itself (needs rounding/associativity reasoning per operation) and mirroring accuracy of event times.")
