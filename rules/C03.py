"""C03 Interval discipline and honest status."""
import facts
import handler as H
import landing
import limits
import C19

LEVEL = "other"


def run(rep, tier):
    f = facts.load("default")
    hc = H.HandlerCtx(f)
    rep.rule("R-STATUS-SUCCESS", "every Success exit of a solver is reached with x == xend as a symbolic identity (the last step was h = xend - x; for a last-step flag carried across "
                                 "iterations the invariant flag => h == xend - x is proved inductively) or is dominated by a comparison establishing that x reached xend")
    rep.rule("R-LAND-COVER", "on every path from choosing a step size (initialisation / accepted-step update) to the next stage evaluation a landing test against xend is made")
    rep.rule("R-LAND-STRETCH", "the literal stretch factor in a landing test lies in [1, 1.01]")
    rep.rule("R-AFF-CRANGE", "every stage abscissa is x + tau*(step taken) with 0 <= tau <= 1 (no evaluation outside the step, hence outside [x0, xend])")
    rep.rule("R-HINIT-CLAMP", "the automatic initial step and its probe point are bounded by max_step / the span")
    rep.rule("R-INTERRUPT-STOP", "UserInterrupt <=> the callback returned Interrupt; nothing is evaluated afterwards")
    rep.rule("R-PUSH-PAIR", "every reported time is pushed together with its state (|t| == |y|)")
    rep.rule("R-FIRST-SIGN", "a raw first_step never meets a direction factor without abs()")
    rep.rule("R-MODE2-RECORD", "without t_eval every accepted step's end point is recorded (or skipped only as a duplicate / while waiting for a first output inside the span)")
    landing.r_status_success(rep, f)
    rep.rule("R-LAND-EXACT", "a solver that decides completion by comparing its abscissa with xend assigns x = xend itself on the clipped last step (a rounded x + (xend - x) can fall an ulp short and end the run with StepSizeTooSmall)")
    landing.r_land_exact(rep, f)
    rep.rule("R-LAND-REMAINDER", "a step clipped to the remaining distance xend - x (a few ulps when max_step divides the interval) is never run into the step-size underflow exit: the landing test stretches, or no underflow test lies between the clip and the step's stage evaluations")
    landing.r_land_remainder(rep, f)
    landing.r_land_cover(rep, f)
    landing.r_land_stretch(rep, f)
    landing.r_land_stretch_sem(rep, f)
    landing.r_crange_all(rep, f)
    rep.rule("R-LAND-FINISH", "the iteration whose accepted step puts x on xend ends the run: no path variant carries x == xend to the end of the loop body (the loop-head budget / underflow tests would pre-empt the completion test)")
    landing.r_land_finish(rep, f)
    limits.r_hinit_clamp(rep, f)
    limits.r_first_sign_solvers(rep, f)
    C19.interrupt_rule(rep, f)
    if hc.body is not None:
        rep.fn(hc.body["def"])
        H.r_push_pair(rep, hc)
        H.r_first_sign_handler(rep, hc)
        H.r_mode2_record(rep, hc)
    else:
        rep.inconc("anchor", "anchor:DefaultSolOut::solout", "default output handler not found")
    rep.rule("R-ZERO-SPAN", "solve_ivp answers a zero-length run itself: the shortcut's condition holds for x0 == xend at every magnitude of the end points, 0 included (numeric evaluation of the symbolic condition)")
    import obs as _obs
    _obs.r_zero_span(rep, f)
    rep.explanation = ("Structural / symbolic, all paths: landing on xend and honest Success via exact symbolic identities over x, h, xend (with an inductive proof for "
                       "carried last-step flags), landing-test coverage of every freshly chosen step, stage abscissae inside the step, Interrupt handling, pairing of t and y. "
                       "Not decided: strict monotonicity / never passing xend as floating-point facts, Brent iterates staying in the bracket, finiteness of values.")
