"""C16 LU factorisation and triangular solves are correct, real and complex (discipline and conventions)."""
import facts
import linalg

LEVEL = "other"


def run(rep, tier):
    f = facts.load("default")
    rep.rule("R-LU-ERRS", "NonSquareMatrix <= dimension test, PivotSizeMismatch <= ip.len() != n, SingularMatrix <= every zero-pivot test; each division by the pivot is dominated by the non-zero edge of that test")
    rep.rule("R-LU-SIBLINGS", "real and complex factorisation issue the same sequence of checks and error variants")
    rep.rule("R-PIVOT-ARGMAX", "the pivot search is an argmax idiom over |a[i,k]| (complex: |re|+|im|): accumulator and row index updated together under candidate > accumulator")
    rep.rule("R-MULT-SIGN", "writer/reader convention: the factorisation stores negative multipliers, the forward substitution adds them, the back substitution subtracts")
    rep.rule("R-CPLX-ALGEBRA", "every (re, im) pair computed in lu_decomp_complex / lin_solve_complex is the exact complex product (or conj/|.|^2 quotient) of its operand pairs; the purely-real / purely-imaginary special cases are specialisations of the general formula")
    rep.rule("R-SOLVE-READONLY", "lin_solve{,_complex} take the factors and pivots by shared reference to a Freeze type and contain no unsafe: only the right-hand side changes")
    rep.rule("R-LU-CHECKED", "every factorisation call site in the solvers inspects the Result and the Err edge leaves the iteration")
    rep.rule("R-LU-SOLVE", "factorise-then-solve returns the solution: lu_decomp + lin_solve (n <= 3) and the complex pair (n <= 2) are evaluated exactly on symbolic matrices for every enumerated pattern of exact zeros and "
                           "every outcome of the ordering tests; A*x - b == 0 is decided as an identity of rational functions in the symbols")
    linalg.r_lu_solve(rep, f, thorough=(tier == "thorough"))
    solved = {x[1] for x in rep.discharged if x[0] == "R-LU-SOLVE"}
    piv = linalg.r_pivot_semantic(rep, f)
    # the rules below read the code by its shape; where a semantic rule has decided the same obligation in this run, a shape
    # they do not recognise is a note, not an INCONCLUSIVE
    covered = {}
    if "R-LU-SOLVE:lu_decomp+lin_solve" in solved and "R-LU-SOLVE:lu_decomp_complex+lin_solve_complex" in solved:
        why = "covered by R-LU-SOLVE (decided): a wrong sign convention, interchange order, skipped update or complex product breaks A*x = b"
        covered.update({"R-MULT-SIGN": why, "R-LU-INTERLEAVE": why, "R-ZERO-SKIP": why, "R-CPLX-ALGEBRA": why})
    if piv.get("lu_decomp") and piv.get("lu_decomp_complex"):
        covered["R-PIVOT-ARGMAX"] = "covered by R-PIVOT-ARGMAX:semantic (decided)"
    soft = linalg.SoftRep(rep, covered)
    linalg.r_lu_errs(rep, f)
    linalg.r_lu_siblings(rep, f)
    linalg.r_pivot_argmax(soft, f)
    linalg.r_mult_sign(soft, f)
    rep.rule("R-LU-INTERLEAVE", "writer/reader agreement on row interchanges: the factorisation swaps only columns >= k (deferred interchanges), so every pivot read in a solve sits in the elimination loop over k and precedes the update of column k")
    linalg.r_lu_interleave(soft, f)
    linalg.r_cplx_algebra(soft, f)
    rep.rule("R-CPLX-MODULUS", "every |re| + |im| magnitude in the complex factorisation pairs the real and the imaginary matrix at the same entry")
    linalg.r_cplx_modulus(rep, f)
    rep.rule("R-ZERO-SKIP", "work skipped because a multiplier tests as zero is a no-op: with the tested quantities set to 0 every skipped update vanishes (a complex value is zero only when both parts are)")
    linalg.r_zero_skip(soft, f)
    linalg.r_solve_readonly(rep, f)
    linalg.r_lu_checked(rep, f)
    rep.explanation = ("Decides the error discipline, the pivoting idiom, the sign convention shared by factorisation and solves, and read-only-ness of the factors. "
                       "R-LU-SOLVE decides A*x = b for all data at the enumerated sizes / zero patterns (exact interpretation of the source with symbols, every ordering outcome enumerated). NOT decided: backward stability / the residual bound in floating point, sizes beyond those enumerated.")
