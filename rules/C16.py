"""C16 LU factorisation and triangular solves are correct, real and complex (discipline and conventions)."""
import facts
import linalg

LEVEL = "other"


def run(rep, tier):
    f = facts.load("default")
    rep.rule("R-LU-ERRS", "NonSquareMatrix <= dimension test, PivotSizeMismatch <= ip.len() != n, SingularMatrix <= every zero-pivot test; each division by the pivot is dominated by the non-zero edge of that test")
    rep.rule("R-LU-SIBLINGS", "real and complex factorisation issue the same sequence of checks and error variants")
    rep.rule("R-PIVOT-ARGMAX", "the pivot search is an argmax idiom over |a[i,k]| (complex: |re|+|im|): accumulator and row index updated together under candidate > accumulator")
    rep.rule("R-MULT-SIGN", "writer/reader convention: the factorisation stores negative multipliers, the forward substitution adds them, the back substitution subtracts")
    rep.rule("R-CPLX-ALGEBRA", "every (re, im) pair computed in lu_decomp_complex / lin_solve_complex is the exact complex product (or conj/|.|^2 quotient) of its operand pairs; the purely-real / purely-imaginary special cases are specialisations of the general formula")
    rep.rule("R-SOLVE-READONLY", "lin_solve{,_complex} take the factors and pivots by shared reference to a Freeze type and contain no unsafe: only the right-hand side changes")
    rep.rule("R-LU-CHECKED", "every factorisation call site in the solvers inspects the Result and the Err edge leaves the iteration")
    linalg.r_lu_errs(rep, f)
    linalg.r_lu_siblings(rep, f)
    linalg.r_pivot_argmax(rep, f)
    linalg.r_mult_sign(rep, f)
    rep.rule("R-LU-INTERLEAVE", "writer/reader agreement on row interchanges: the factorisation swaps only columns >= k (deferred interchanges), so every pivot read in a solve sits in the elimination loop over k and precedes the update of column k")
    linalg.r_lu_interleave(rep, f)
    linalg.r_cplx_algebra(rep, f)
    rep.rule("R-CPLX-MODULUS", "every |re| + |im| magnitude in the complex factorisation pairs the real and the imaginary matrix at the same entry")
    linalg.r_cplx_modulus(rep, f)
    rep.rule("R-ZERO-SKIP", "work skipped because a multiplier tests as zero is a no-op: with the tested quantities set to 0 every skipped update vanishes (a complex value is zero only when both parts are)")
    linalg.r_zero_skip(rep, f)
    linalg.r_solve_readonly(rep, f)
    linalg.r_lu_checked(rep, f)
    rep.explanation = ("Decides the error discipline, the pivoting idiom, the sign convention shared by factorisation and solves, and read-only-ness of the factors. "
                       "NOT decided: backward stability / the residual bound and correctness of the elimination as arithmetic on run-time matrices (that needs symbolic execution over pivot branches - a different technique family).")
