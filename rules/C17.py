"""C17 Matrix values do not depend on the storage scheme (structural clauses)."""
import os
import re
import shutil
import subprocess

import facts
import tast
from symx import SymExec, Hooks, Buf, Coll, FACTS
from poly import Poly, DEFS

LEVEL = "other"
MAT = "matrix::base::Matrix"
STO = "matrix::base::MatrixStorage::"


def matrix_fns(f):
    return [b for b in f.body_list if b["def"].startswith("matrix::") and "::tests::" not in b["def"] and b["dk"] in ("Fn", "AssocFn")]


def storage_kind(v):
    """('Identity'|'Full', None) | ('Banded', (ml, mu)) | ('dynamic', None) from the symbolic storage value"""
    if not isinstance(v, Poly):
        return ("?", None)
    a = v.single_atom()
    if not a:
        return ("?", None)
    if a == "def:" + STO + "Identity":
        return ("Identity", None)
    if a == "def:" + STO + "Full":
        return ("Full", None)
    if a.startswith("struct:" + STO + "Banded") and a in DEFS:
        xs = DEFS[a][1]
        if len(xs) == 2:
            return ("Banded", (xs[0], xs[1]))
    return ("dynamic", None)


def expected_len(kind, bw, n, m):
    if kind == "Identity":
        return Poly.const(2)
    if kind == "Full":
        return n * m
    if kind == "Banded":
        return (bw[0] + bw[1] + Poly.const(1)) * m
    return None


def sq(p, n, m):
    """square-matrix scope of the property: identify m with n"""
    if not isinstance(p, Poly) or not isinstance(n, Poly) or not isinstance(m, Poly):
        return p
    na, ma = n.single_atom(), m.single_atom()
    if na and ma and na != ma:
        return p.subst({ma: n})
    return p


def eq_fact(fs, a, b):
    for cond, truth in fs:
        at = cond.single_atom() if isinstance(cond, Poly) else None
        if at and at in DEFS:
            op, xs = DEFS[at]
            if ((op == "eq" and truth) or (op == "ne" and not truth)) and len(xs) == 2:
                if (xs[0] == a and xs[1] == b) or (xs[0] == b and xs[1] == a):
                    return True
            if op == "not" and not truth and xs:
                # !(l == r) is false
                inner = xs[0].single_atom() if isinstance(xs[0], Poly) else None
                if inner and inner in DEFS and DEFS[inner][0] == "eq":
                    l, r = DEFS[inner][1]
                    if (l == a and r == b) or (l == b and r == a):
                        return True
    return False


def pat_variant(p):
    d = p.get("def") or p.get("ctor_of") or ""
    if p.get("k") in ("PRef", "PDeref"):
        return pat_variant(p["pat"])
    if d.startswith(STO):
        return d[len(STO):]
    return None


def r_mat_repinv(rep, f):
    n_lit = 0
    undecided = []
    for b in matrix_fns(f):
        fn = b["def"]
        lits = tast.find(b["body"], lambda z: z.get("k") == "Struct" and z.get("def") == MAT and not z.get("base"))
        if not lits:
            continue
        rep.fn(fn)
        class _SX(SymExec):
            # private helpers of the matrix module (a `band_rows(ml, mu)` computing the stored row count) are interpreted in place
            def inline_ok(self, d, rec):
                return str(rec.get("vis", "")).startswith("Restricted") and d.startswith(("matrix::", "<matrix::")) and "::{closure" not in d \
                    and rec.get("dk") in ("Fn", "AssocFn") and bool(rec.get("has_body"))
        sx = _SX(f, fn, Hooks())
        sx.bind_params()
        try:
            sx.eval(b["body"])
        except Exception as e:   # engine limitation on this body: not decided here
            undecided.append("%s (%s)" % (fn, type(e).__name__))
            continue
        short = fn.replace("matrix::", "")
        seen = 0
        for ev in sx.trace:
            if ev["kind"] != "struct" or ev["node"].get("def") != MAT or not all(k in ev["fields"] for k in ("n", "m", "data", "storage")):
                continue
            seen += 1
            fl = ev["fields"]
            n, m, data, sto = fl["n"], fl["m"], fl["data"], fl["storage"]
            key = "R-MAT-REPINV:%s:literal%d" % (short, seen)
            kind, bw = storage_kind(sto)
            dlen = data.len if isinstance(data, Buf) else (Poly.const(0) if isinstance(data, Coll) and not data.elems else None)
            if kind == "dynamic":
                # the storage is a run-time value: pair the arms of the match that builds `data` with the storage variants
                mv = [e2 for e2 in sx.trace if e2["kind"] == "matchval" and any(isinstance(v, Buf) for _, _, v in e2["arms"])]
                if not mv:
                    undecided.append("%s literal %d (dynamic storage)" % (short, seen))
                    continue
                for j, pat, v in mv[-1]["arms"]:
                    var = pat_variant(pat)
                    k2 = key + ":" + str(var)
                    if var is None or not isinstance(v, Buf) or v.len is None:
                        undecided.append("%s arm %s" % (short, var))
                        continue
                    bw2 = None
                    if var == "Banded":
                        ids = {fl_["name"]: Poly.atom(fl_["pat"].get("name")) for fl_ in pat.get("fields", []) if fl_["pat"].get("k") == "PBind"}
                        if "ml" in ids and "mu" in ids:
                            # pattern bindings are bound to projection atoms: read their current symbolic values
                            vals = {}
                            for fl_ in pat.get("fields", []):
                                vals[fl_["name"]] = sx.st.get(fl_["pat"].get("id")) if sx.st else None
                            bw2 = (ids["ml"], ids["mu"])
                    exp = expected_len(var, bw2, n, m) if var != "Banded" or bw2 else None
                    n_lit += 1
                    got = v.len
                    if var == "Banded":
                        # compare shapes up to the names of the pattern-bound bandwidths: (a + b + 1) * n
                        ok = _banded_shape(got, n, m)
                    else:
                        ok = exp is not None and sq(got, n, m) == sq(exp, n, m)
                    if ok:
                        rep.ok("R-MAT-REPINV", k2, "data.len() = %r for storage %s" % (got, var))
                    else:
                        rep.violation("R-MAT-REPINV", k2, "%s builds data of length %r for storage %s (n=%r, m=%r): entries cannot all be read" % (short, got, var, n, m), ev["node"].get("sp"))
                continue
            if kind == "?":
                undecided.append("%s literal %d (storage %r)" % (short, seen, sto))
                continue
            exp = expected_len(kind, bw, n, m)
            if dlen is None:
                # elementwise map of operand data keeps the operand's length (inductive); anything else is not decided here
                undecided.append("%s literal %d (data length not symbolic)" % (short, seen))
                continue
            n_lit += 1
            if sq(dlen, n, m) == sq(exp, n, m) or eq_fact(ev.get("facts", frozenset()), dlen, exp) or eq_fact(ev.get("facts", frozenset()), dlen, sq(exp, n, m)):
                rep.ok("R-MAT-REPINV", key, "data.len() = %r == %r for storage %s" % (dlen, exp, kind))
            else:
                rep.violation("R-MAT-REPINV", key, "%s builds a %s matrix with n=%r, m=%r but data.len() = %r (expected %r): reading an entry panics or reads the wrong cell"
                              % (short, kind, n, m, dlen, exp), ev["node"].get("sp"))
    if n_lit < 9:
        rep.inconc("R-MAT-REPINV", "R-MAT-REPINV:floor", "only %d Matrix literals with a symbolic data length were analysed (expected >= 9)" % n_lit)
    rep.extra["repinv_not_decided"] = undecided


class CtorInline(SymExec):
    """interpret the Matrix constructors in place so that `..Matrix::banded(n, a, b)` exposes which value becomes ml / mu"""

    def inline_ok(self, d, rec):
        return d.startswith("matrix::base::Matrix::") and rec.get("dk") in ("Fn", "AssocFn") and rec.get("has_body")


def r_band_keep(rep, f):
    """a storage descriptor copied from an operand keeps its bandwidths in place: whenever a `MatrixStorage::Banded { ml, mu }`
    value is built (directly, or through an inlined Matrix constructor) from the fields bound by a `Banded { ml, mu }` pattern,
    ml comes from ml and mu from mu. (The crate has no transpose; crossing the two silently moves every entry to another
    diagonal when ml != mu.)"""
    n = 0
    for b in matrix_fns(f):
        fn = b["def"]
        if not tast.contains(b["body"], lambda z: (z.get("def") or "").endswith("MatrixStorage::Banded") or (z.get("def") or "").startswith(MAT + "::banded")):
            continue
        sx = CtorInline(f, fn, Hooks())
        sx.bind_params()
        try:
            sx.eval(b["body"])
        except Exception:
            continue
        short = fn.replace("matrix::", "")
        k = 0
        for ev in sx.trace:
            if ev["kind"] != "struct" or not (ev["node"].get("def") or "").endswith("MatrixStorage::Banded"):
                continue
            for fname in ("ml", "mu"):
                v = ev["fields"].get(fname)
                if not isinstance(v, Poly):
                    continue
                # which pattern-bound bandwidths does this value derive from (through max/min/joins/arithmetic)?
                srcs = set()
                seen_ = set()
                stack = list(v.atoms())
                while stack:
                    a = stack.pop()
                    if a in seen_:
                        continue
                    seen_.add(a)
                    d = DEFS.get(a)
                    if not d:
                        continue
                    if d[0] == "proj" and len(d[1]) == 2 and d[1][1].single_atom() in ("ml", "mu"):
                        srcs.add(d[1][1].single_atom())
                        continue
                    for x in d[1]:
                        if isinstance(x, Poly):
                            stack.extend(x.atoms())
                if not srcs:
                    continue
                k += 1
                n += 1
                key = "R-BAND-KEEP:%s:%s%d" % (short, fname, k)
                if srcs == {fname}:
                    rep.ok("R-BAND-KEEP", key, "%s <- operands' %s" % (fname, fname))
                else:
                    rep.violation("R-BAND-KEEP", key, "the result's %s is computed from the operands' %s: the bandwidths are crossed and every entry lands on a wrong diagonal when ml != mu"
                                  % (fname, sorted(srcs)), ev["node"].get("sp"))
        if k:
            rep.fn(fn)
    if n < 6:
        rep.inconc("R-BAND-KEEP", "R-BAND-KEEP:floor", "only %d copied bandwidths found in matrix/ (expected >= 6)" % n)


def r_data_raw_guard(rep, f):
    """element-wise arithmetic on a matrix's raw `data` is valid only when the data ARE the entries: every loop / map in
    matrix/{add,sub,mul}.rs that updates data element by element sits in a match arm (or under a test) that pins the storage
    to Full or Banded. For Identity storage the data are a tag, not entries: subtracting them leaves an `Identity` that is
    really the zero matrix."""
    n = 0
    STO = MAT + "Storage"
    for b in matrix_fns(f):
        fn = b["def"]
        if not any(x in fn for x in ("::add::", "::sub::", "::mul::")):
            continue
        sites = []
        for lp, parents in tast.find_with_parents(b["body"], lambda z: z.get("k") == "For"):
            it = lp["iter"]
            on_data = tast.contains(it, lambda q: (q.get("k") == "Field" and (q.get("fdef") or "") == MAT + "::data") or
                                    (q.get("k") == "Path" and q.get("res") == "local" and "Vec<f64>" in (q.get("ty") or "")))
            mut = tast.contains(it, lambda q: (q.get("k") == "MethodCall" and q.get("name") == "iter_mut") or (q.get("k") == "AddrOf" and q.get("mut")))
            writes = tast.contains(lp["body"], lambda q: q.get("k") in ("AssignOp", "Assign") and q["l"].get("k") == "Unary" and q["l"].get("op") == "Deref")
            if on_data and mut and writes:
                sites.append((lp, parents))
        for mp, parents in tast.find_with_parents(b["body"], lambda z: z.get("k") == "MethodCall" and z.get("name") == "map" and tast.contains(z["recv"], lambda q: q.get("k") == "Field" and (q.get("fdef") or "") == MAT + "::data")):
            sites.append((mp, parents))
        # direct element writes  X.data[e] (op)= v  and in-place mutators  X.data.swap/fill/..
        is_data = lambda q: q.get("k") == "Field" and (q.get("fdef") or "") == MAT + "::data"
        for st, parents in tast.find_with_parents(b["body"], lambda z: z.get("k") in ("Assign", "AssignOp") and z["l"].get("k") == "Index" and is_data(z["l"]["e"])):
            sites.append((st, parents))
        for mc, parents in tast.find_with_parents(b["body"], lambda z: z.get("k") == "MethodCall" and z.get("name") in ("swap", "fill", "reverse", "rotate_left", "rotate_right", "copy_from_slice", "clone_from_slice")
                                                  and tast.contains(z["recv"], is_data)):
            sites.append((mc, parents))
        for node, parents in sites:
            n += 1
            key = "R-DATA-RAW:%s:%d" % (fn.replace("matrix::", ""), n)
            pinned = False
            for a in parents:
                if a.get("k") == "Match":
                    for arm in a["arms"]:
                        if tast.contains(arm["body"], lambda z: z is node):
                            pats = tast.find(arm["pat"], lambda q: (q.get("def") or q.get("ctor_of") or "").startswith(STO + "::") or (q.get("k") in ("PStruct", "PPath", "PTupleStruct") and "MatrixStorage::" in (q.get("def") or "")))
                            names = {(q.get("def") or q.get("ctor_of") or "").split("::")[-1] for q in pats}
                            if names and "Identity" not in names and names <= {"Full", "Banded"}:
                                pinned = True
                if a.get("k") == "If" and tast.contains(a["then"], lambda z: z is node):
                    c = a["cond"]
                    if tast.contains(c, lambda q: (q.get("def") or "").endswith("MatrixStorage::Full") or (q.get("def") or "").endswith("MatrixStorage::Banded")) and \
                            not tast.contains(c, lambda q: (q.get("def") or "").endswith("MatrixStorage::Identity")):
                        pinned = True
            if pinned:
                rep.ok("R-DATA-RAW", key, "raw data arithmetic under a Full/Banded storage pattern")
            else:
                rep.violation("R-DATA-RAW", key, "`%s` updates the raw data element by element without pinning the storage to Full or Banded: for Identity storage the data are not the entries "
                              "(the result keeps the Identity tag whatever the arithmetic did)" % tast.render(node)[:70], node.get("sp"))
    if n < 5:
        rep.inconc("R-DATA-RAW", "R-DATA-RAW:floor", "only %d element-wise raw-data sites found in add/sub/mul (expected >= 5)" % n)


def _banded_shape(got, n, m):
    """got == (a + b + 1) * n for two atoms a, b (the bound bandwidths), identifying m with n"""
    if not isinstance(got, Poly):
        return False
    g = sq(got, n, m)
    na = n.single_atom() if isinstance(n, Poly) else None
    if not na:
        return False
    q = g.div(Poly.atom(na))
    if na in q.atoms():
        return False
    # q must be 1 + a + b
    consts = q.t.get((), 0)
    others = [(mm, c) for mm, c in q.t.items() if mm != ()]
    return consts == 1 and len(others) == 2 and all(c == 1 and len(mm) == 1 and mm[0][1] == 1 for mm, c in others)


# ------------------------------------------------------------------------------------------ R-BAND-MAP
def norm_cmp(p):
    """condition value -> frozenset of frozensets (DNF) of ('le'|'lt', repr(poly<=/<0))"""
    a = p.single_atom() if isinstance(p, Poly) else None
    if not a or a not in DEFS:
        return None
    op, xs = DEFS[a]
    if op in ("lt", "le", "gt", "ge") and len(xs) == 2 and all(isinstance(x, Poly) for x in xs):
        l, r = xs
        if op == "lt":
            return frozenset([frozenset([("lt", repr(l - r))])])
        if op == "le":
            return frozenset([frozenset([("le", repr(l - r))])])
        if op == "gt":
            return frozenset([frozenset([("lt", repr(r - l))])])
        return frozenset([frozenset([("le", repr(r - l))])])
    if op == "and":
        parts = [norm_cmp(x) for x in xs]
        if None in parts:
            return None
        out = parts[0]
        for q in parts[1:]:
            out = frozenset(a_ | b_ for a_ in out for b_ in q)
        return out
    if op == "or":
        parts = [norm_cmp(x) for x in xs]
        if None in parts:
            return None
        out = frozenset()
        for q in parts:
            out |= q
        return out
    return None


def negate_dnf(d, polys):
    """negation of a DNF of atomic comparisons; polys maps repr -> Poly"""
    if d is None:
        return None
    out = frozenset([frozenset()])
    for conj in d:
        alts = []
        for (op, pr) in conj:
            p = polys[pr]
            alts.append(("le", repr(-p)) if op == "lt" else ("lt", repr(-p)))
        out = frozenset(c | frozenset([a_]) for c in out for a_ in alts)
    return out


def band_access(f, fn):
    """(in-band condition as DNF, offset polynomial) of the Banded arm of an index function"""
    b = f.body(fn)
    sx = SymExec(f, fn, Hooks())
    sx.bind_params()
    sx.eval(b["body"])
    # index expressions into self.data evaluated under the Banded arm, with the enclosing if condition
    res = []
    polys = {}
    for node, parents in tast.find_with_parents(b["body"], lambda z: z.get("k") == "Index" and z["e"].get("k") == "Field" and (z["e"].get("fdef") or "") == MAT + "::data"):
        arms = [p for p in parents if p.get("k") == "Match"]
        in_banded = False
        for mm in arms:
            for a in mm["arms"]:
                if pat_variant(a["pat"]) == "Banded" and tast.contains(a["body"], lambda z: z is node):
                    in_banded = True
        if not in_banded:
            continue
        ifs = [(p, "then" if tast.contains(p["then"], lambda z: z is node) else "else") for p in parents if p.get("k") == "If"]
        res.append((node, ifs))
    return b, sx, res


def r_band_map(rep, f):
    idx = "matrix::index::<impl std::ops::Index<(usize, usize)> for matrix::base::Matrix>::index"
    idxm = "matrix::index::<impl std::ops::IndexMut<(usize, usize)> for matrix::base::Matrix>::index_mut"
    got = {}
    known_at = {}
    for fn in (idx, idxm):
        if fn not in f.bodies:
            rep.inconc("R-BAND-MAP", "R-BAND-MAP:anchor", "%s not found" % fn)
            return
        rep.fn(fn)
        b, sx, res = band_access(f, fn)
        if len(res) != 1:
            rep.inconc("R-BAND-MAP", "R-BAND-MAP:%s" % fn, "expected one data access in the Banded arm, found %d" % len(res))
            return
        node, ifs = res[0]
        # symbolic values: re-evaluate the index expression and the guarding condition from the trace
        cond_val = None
        for ev in sx.trace:
            if ev["kind"] == "if" and ifs and ev["node"] is ifs[-1][0]:
                cond_val = ev["cond"]
        off = None
        # the offset: evaluate the index expression in the final state of the run restricted to this arm is not available;
        # recompute it structurally from the lets of the arm
        sub = SymExec(f, fn, Hooks())
        sub.bind_params()
        arm = None
        for mm in tast.find(b["body"], lambda z: z.get("k") == "Match"):
            for a in mm["arms"]:
                if pat_variant(a["pat"]) == "Banded" and tast.contains(a["body"], lambda z: z is node):
                    arm = (mm, a)
        # run the function prefix (tuple destructuring, asserts) then only that arm
        class Sel(Hooks):
            def select_arms(self, sx_, nd, scrut):
                if nd is arm[0]:
                    return [j for j, a_ in enumerate(nd["arms"]) if a_ is arm[1]]
                return None

            def select_if(self, sx_, nd, cond):
                for p, br in ifs:
                    if nd is p:
                        return br
                return None
        captured = {}
        sub.h = Sel()
        orig = sub.e_Index

        def e_index(e):
            if e is node:
                captured["off"] = sub.eval(e["i"])
                # everything known on the path at the access: enclosing tests and earlier tests whose other branch left
                captured["known"] = [(cv, br == "then") for nd_, br, cv in sub.pc] + [(cv, bool(tr_)) for cv, tr_ in sub.path_facts()]
            return orig(e)
        sub.e_Index = e_index
        sub.eval(b["body"])
        off = captured.get("off")
        branch = ifs[-1][1] if ifs else None
        got[fn] = (cond_val, branch, off, node)
        known_at[fn] = captured.get("known") or []
    (c1, b1, o1, n1), (c2, b2, o2, n2) = got[idx], got[idxm]
    key = "R-BAND-MAP:offset"

    # `index` destructures its tuple argument with a let, `index_mut` in the parameter pattern: name the components alike
    ren = {}
    for fn_ in (idx, idxm):
        bb = f.body(fn_)
        for l in tast.find(bb["body"], lambda z: z.get("k") == "Let" and z["pat"].get("k") == "PTuple" and z.get("init") is not None and z["init"].get("k") == "Path"):
            for j_, pp in enumerate(l["pat"]["pats"]):
                if pp.get("k") == "PBind":
                    ren["proj[%s,%d]" % (l["init"].get("name"), j_)] = pp["name"]

    def canon(p):
        if not isinstance(p, Poly):
            return p
        return p.subst({a: Poly.atom(b_) for a, b_ in ren.items()})
    o1, o2 = canon(o1), canon(o2)
    if isinstance(o1, Poly) and isinstance(o2, Poly) and o1 == o2:
        rep.ok("R-BAND-MAP", key, "index and index_mut address data[%r]" % (o1,))
    else:
        rep.violation("R-BAND-MAP", key, "index reads data[%r] but index_mut writes data[%r] for a banded matrix" % (o1, o2), n2.get("sp"))
    polys = {}

    def rename_cond(p):
        """rebuild a condition value with the tuple components renamed"""
        from poly import opaque
        a = p.single_atom() if isinstance(p, Poly) else None
        if a and a in DEFS and DEFS[a][0] in ("lt", "le", "gt", "ge", "and", "or", "not"):
            op, xs = DEFS[a]
            return opaque(op, [rename_cond(x) if isinstance(x, Poly) else x for x in xs])
        return canon(p)
    c1, c2 = (rename_cond(c1) if c1 is not None else None), (rename_cond(c2) if c2 is not None else None)

    def collect(p):
        a = p.single_atom() if isinstance(p, Poly) else None
        if a and a in DEFS:
            op, xs = DEFS[a]
            if op in ("lt", "le", "gt", "ge"):
                l, r = xs
                for q in (l - r, r - l):
                    polys[repr(q)] = q
            for x in xs:
                if isinstance(x, Poly):
                    collect(x)
    for c in (c1, c2):
        if isinstance(c, Poly):
            collect(c)
    d1, d2 = norm_cmp(c1) if c1 is not None else None, norm_cmp(c2) if c2 is not None else None
    key = "R-BAND-MAP:predicate"

    def from_known(fn_):
        """the in-band predicate as the conjunction of every comparison known at the data access (tests that enclose it and
        earlier tests whose other branch diverged), whatever the nesting"""
        out = frozenset([frozenset()])
        n_ = 0
        for cv, truth in known_at.get(fn_, []):
            cv = rename_cond(cv)
            if isinstance(cv, Poly):
                collect(cv)
            d_ = norm_cmp(cv)
            if d_ is None:
                continue
            if not truth:
                d_ = negate_dnf(d_, polys)
            if d_ is None:
                continue
            out = frozenset(a_ | b_ for a_ in out for b_ in d_)
            n_ += 1
        return out if n_ else None
    if d1 is None or d2 is None or True:
        k1, k2 = from_known(idx), from_known(idxm)
        if k1 is not None and k2 is not None:
            d1, d2, b1, b2 = k1, k2, "then", "then"
    if d1 is None or d2 is None:
        rep.inconc("R-BAND-MAP", key, "in-band predicates are not comparisons of i-j with the bandwidths")
        return
    in1 = d1 if b1 == "then" else negate_dnf(d1, polys)
    in2 = d2 if b2 == "then" else negate_dnf(d2, polys)
    if in1 == in2:
        rep.ok("R-BAND-MAP", key, "index and index_mut use the same in-band predicate")
    else:
        rep.violation("R-BAND-MAP", key, "index treats (i,j) as in-band under %s but index_mut under %s" % (sorted(map(sorted, in1)), sorted(map(sorted, in2))), n2.get("sp"))


# ------------------------------------------------------------------------------------------ R-IDX-DIVERGE
def r_idx_diverge(rep, f):
    fn = "matrix::index::<impl std::ops::IndexMut<(usize, usize)> for matrix::base::Matrix>::index_mut"
    b = f.bodies.get(fn)
    if b is None:
        rep.inconc("R-IDX-DIVERGE", "R-IDX-DIVERGE:anchor", "index_mut not found")
        return
    ms = [mm for mm in tast.find(b["body"], lambda z: z.get("k") == "Match") if any(pat_variant(a["pat"]) for a in mm["arms"])]
    if len(ms) != 1:
        rep.inconc("R-IDX-DIVERGE", "R-IDX-DIVERGE:match", "storage match not found")
        return

    def diverges(e):
        if e.get("ty") == "!":
            return True
        if e.get("k") == "Block":
            if e.get("tail") is not None:
                return diverges(e["tail"])
            return bool(e["stmts"]) and e["stmts"][-1].get("k") == "ExprStmt" and diverges(e["stmts"][-1]["e"])
        return False
    for a in ms[0]["arms"]:
        var = pat_variant(a["pat"])
        if var == "Identity":
            key = "R-IDX-DIVERGE:identity"
            if diverges(a["body"]):
                rep.ok("R-IDX-DIVERGE", key, "writing through an Identity matrix cannot return a reference")
            else:
                rep.violation("R-IDX-DIVERGE", key, "index_mut returns a reference into an Identity matrix: a write would corrupt the shared [1, 0] backing store", a.get("sp"))
        if var == "Banded":
            ifs = tast.find(a["body"], lambda z: z.get("k") == "If")
            key = "R-IDX-DIVERGE:out-of-band"
            if len(ifs) != 1:
                rep.inconc("R-IDX-DIVERGE", key, "expected one in-band test")
                continue
            t, e = ifs[0]["then"], ifs[0].get("else")
            # exactly one branch yields the reference, the other must diverge
            dt, de = diverges(t), (diverges(e) if e is not None else False)
            if dt != de:
                rep.ok("R-IDX-DIVERGE", key, "the out-of-band branch panics")
            else:
                rep.violation("R-IDX-DIVERGE", key, "an out-of-band write to a Banded matrix does not panic", ifs[0].get("sp"))


# ------------------------------------------------------------------------------------------ R-MACRO-PATHS / R-MACRO-WITNESS
def r_macro_paths(rep, f):
    """every `$crate::a::b` path written in an exported macro resolves to an item of the crate"""
    src = None
    for fl in f.files:
        if fl["name"].endswith("matrix/macros.rs"):
            src = os.path.join(facts.REPO, fl["name"])
    if src is None or not os.path.exists(src):
        rep.inconc("R-MACRO-PATHS", "R-MACRO-PATHS:anchor", "matrix/macros.rs not among the compiled sources")
        return
    text = open(src).read()
    text = text.split("#[cfg(test)]")[0]
    text = re.sub(r"//[^\n]*", "", text)
    known = set(f.fns) | set(f.adts) | set(f.items["mods"]) | set(f.consts)
    # inherent methods are listed as `matrix::base::Matrix::full`; re-exports: matrix::Matrix == matrix::base::Matrix
    reexp = {"matrix::Matrix": "matrix::base::Matrix", "matrix::MatrixStorage": "matrix::base::MatrixStorage"}
    n = 0
    for mname, body in re.findall(r"macro_rules!\s*(\w+)\s*\{(.*?)\n\}", text, re.S):
        for j, pth in enumerate(re.findall(r"\$crate((?:::\w+)+)", body)):
            n += 1
            p = pth[2:]
            cands = [p]
            for a, b_ in reexp.items():
                if p.startswith(a + "::") or p == a:
                    cands.append(b_ + p[len(a):])
            key = "R-MACRO-PATHS:%s:%s" % (mname, p)
            if any(c in known for c in cands):
                rep.ok("R-MACRO-PATHS", key, "resolves")
            else:
                rep.violation("R-MACRO-PATHS", key, "macro `%s!` expands to `$crate::%s`, which does not exist in the crate: that form of the macro cannot compile for users" % (mname, p), src.replace(facts.REPO + "/", ""))
    if n < 3:
        rep.inconc("R-MACRO-PATHS", "R-MACRO-PATHS:floor", "only %d $crate paths found in exported macros" % n)


WITNESSES = {
    "matrix_rows_semicolon": "let m: ivp::prelude::Matrix = ivp::matrix![1.0, 2.0; 3.0, 4.0]; let _ = m[(0, 1)];",
    "matrix_rows_brackets": "let m: ivp::prelude::Matrix = ivp::matrix![[1.0, 2.0], [3.0, 4.0]]; let _ = m[(0, 1)];",
    "banded_by_diagonals": "let m: ivp::prelude::Matrix = ivp::banded_matrix!(0 => [1.0, 2.0, 3.0], 1 => [4.0, 5.0], -1 => [6.0, 7.0]); let _ = m[(1, 0)];",
}


def r_macro_witness(rep, f):
    """compile (type-check only, nothing is executed) each documented constructor form from outside the crate"""
    wdir = os.path.join(facts.CACHE, "witness")
    shutil.rmtree(wdir, ignore_errors=True)
    os.makedirs(os.path.join(wdir, "src", "bin"), exist_ok=True)
    with open(os.path.join(wdir, "Cargo.toml"), "w") as fh:
        fh.write('[package]\nname = "ivp-witness"\nversion = "0.0.0"\nedition = "2021"\n[dependencies]\nivp = { path = "%s" }\n[workspace]\n' % facts.REPO)
    shutil.copy(os.path.join(facts.REPO, "Cargo.lock"), os.path.join(wdir, "Cargo.lock"))
    for name, code in WITNESSES.items():
        with open(os.path.join(wdir, "src", "bin", name + ".rs"), "w") as fh:
            fh.write("fn main() { %s }\n" % code)
    env = dict(os.environ, CARGO_NET_OFFLINE="true", CARGO_TARGET_DIR=os.path.join(facts.CACHE, "target-witness"))
    for name in WITNESSES:
        r = subprocess.run(["cargo", "check", "--offline", "--quiet", "--bin", name], cwd=wdir, env=env, capture_output=True, text=True)
        key = "R-MACRO-WITNESS:%s" % name
        if r.returncode == 0:
            rep.ok("R-MACRO-WITNESS", key, "type-checks from outside the crate")
        else:
            err = [l for l in r.stderr.splitlines() if l.startswith("error")]
            if any("could not compile `ivp`" in l for l in r.stderr.splitlines()) and not any("ivp-witness" in l for l in r.stderr.splitlines()):
                rep.inconc("R-MACRO-WITNESS", key, "the library itself does not compile")
            else:
                rep.violation("R-MACRO-WITNESS", key, "the documented constructor form `%s` does not compile for a user of the crate: %s" % (WITNESSES[name].split(";")[0].split("= ")[1], "; ".join(err[:2])[:300]),
                              "src/matrix/macros.rs")
    shutil.rmtree(wdir, ignore_errors=True)


def run(rep, tier):
    f = facts.load("default")
    rep.rule("R-MAT-REPINV", "every Matrix struct literal built in matrix/ has data.len() == 2 (Identity) / n*m (Full) / (ml+mu+1)*m (Banded), symbolically, for square matrices")
    rep.rule("R-BAND-MAP", "Index and IndexMut address the same data offset (i-j+mu)*m + j under the same in-band predicate")
    rep.rule("R-BAND-DENSIFY", "every loop over the compact band rows in add/sub/component ops maps row r, column j to the dense entry with i - j = r - mu (inverse of the Index map)")
    rep.rule("R-IDX-DIVERGE", "in index_mut the Identity arm and the out-of-band branch cannot return normally")
    rep.rule("R-MACRO-PATHS", "every $crate path in the exported matrix macros resolves to an item of the crate")
    rep.rule("R-MACRO-WITNESS", "each documented macro constructor form type-checks from outside the crate (cargo check of a witness crate; nothing is executed)")
    r_mat_repinv(rep, f)
    r_band_map(rep, f)
    floor_note = r_band_densify(rep, f)
    r_idx_diverge(rep, f)
    r_macro_paths(rep, f)
    rep.rule("R-DATA-RAW", "element-wise arithmetic on raw matrix data happens only under a Full/Banded storage pattern (never for Identity, whose data are a tag)")
    r_data_raw_guard(rep, f)
    rep.rule("R-BAND-KEEP", "a Banded storage descriptor built from an operand's (ml, mu) keeps ml as ml and mu as mu (directly or through an inlined Matrix constructor)")
    r_band_keep(rep, f)
    r_macro_witness(rep, f)
    rep.rule("R-MAT-DENSE", "for every storage combination of square matrices up to n = 3 (thorough: 8, i.e. every size the property names) - Identity, Full, Banded(ml, mu) for all bandwidth pairs - add, sub, their assigning forms, "
                            "component_add/sub/mul(_mut) with a generic scalar and with 0, every constructor, is_identity, in-band element writes and rejected writes agree entrywise with the dense model "
                            "and keep the representation invariant: polynomial identities in the stored numbers (exact evaluation with concrete shapes, engine/cxs.py)")
    import matx
    nmax = 8 if tier == "thorough" else 3      # the property's sizes 1..8 are all enumerated in the thorough tier
    matx.r_mat_dense(rep, f, nmax, jobs=14 if tier == "thorough" else 1)
    matx.r_mat_write_guard(rep, f, min(nmax, 4))
    if floor_note:
        # fewer band-walking loops than on the pinned tree (shared helpers): every loop that exists was checked; that no
        # operator lost its band handling is what R-MAT-DENSE decides by evaluating every operator on every band shape
        dense_ok = sum(1 for r_, k_, d_ in rep.discharged if r_ == "R-MAT-DENSE") >= 5 and not any(x["rule"] == "R-MAT-DENSE" for x in rep.inconclusive + rep.violations)
        if dense_ok:
            rep.note("R-BAND-DENSIFY:floor %s - covered by R-MAT-DENSE (decided)" % floor_note)
        else:
            rep.inconc("R-BAND-DENSIFY", "R-BAND-DENSIFY:floor", floor_note)
    rep.explanation = ("Structural: representation invariants of every constructor / operator result (symbolic lengths), agreement of the read and write index maps, divergence of illegal writes, "
                       "and compile witnesses for the macro constructors. R-MAT-DENSE decides entrywise equality of every operator with the dense model for all data and every storage shape up to the stated size (sizes beyond it are not enumerated).")


def r_band_densify(rep, f):
    """every loop that walks the compact band storage (row r of (ml+mu+1) rows, column j) maps it to the dense entry
    (i, j) with i - j = r - mu, the inverse of the Index map (row = i - j + mu)"""
    n = 0
    for b in matrix_fns(f):
        fn = b["def"]
        short = fn.replace("matrix::", "")
        # Banded patterns in this function: binding id of `ml` and `mu`
        pats = []
        tast.walk(b, lambda nd, ps: pats.append(nd) if nd.get("k") == "PStruct" and (nd.get("def") or "") == STO + "Banded" else None)
        for lp, parents in tast.find_with_parents(b["body"], lambda z: z.get("k") == "For" and z["iter"].get("k") == "Struct" and z["iter"].get("def") == "std::ops::Range"):
            rng = {x["name"]: x["e"] for x in lp["iter"]["fields"]}
            end = rng.get("end")
            if end is not None and end.get("k") == "Path" and end.get("res") == "local":
                le = tast.find(b["body"], lambda z: z.get("k") == "Let" and z["pat"].get("id") == end.get("id") and z.get("init") is not None)
                if le:
                    end = le[0]["init"]
            if end is None or not tast.contains(end, lambda q: q.get("k") == "Lit" and str(q.get("v")) == "1"):
                continue
            ids = [p["id"] for p in tast.find(end, lambda q: q.get("k") == "Path" and q.get("res") == "local")]
            if len(ids) != 2:
                continue
            mu_id = ml_id = None
            for ps in pats:
                fl = {x["name"]: x["pat"] for x in ps.get("fields", [])}
                bid = {k: (v.get("id") if v.get("k") == "PBind" else (v["pat"].get("id") if v.get("k") in ("PRef", "PDeref") else None)) for k, v in fl.items()}
                if set(ids) == {bid.get("ml"), bid.get("mu")}:
                    mu_id, ml_id = bid["mu"], bid["ml"]
            if mu_id is None:
                continue
            rid = lp["pat"].get("id")
            lets = tast.find(lp["body"], lambda z: z.get("k") == "Let" and z.get("init") is not None and z["init"].get("k") == "Binary" and z["init"]["op"] == "Sub"
                             and tast.contains(z["init"]["l"], lambda q: q.get("k") == "Path" and q.get("id") == rid))
            if not lets:
                continue
            n += 1
            sub = lets[0]["init"]["r"]
            used = [p["id"] for p in tast.find(sub, lambda q: q.get("k") == "Path" and q.get("res") == "local")]
            key = "R-BAND-DENSIFY:%s:site%d" % (short, n)
            if used == [mu_id]:
                rep.ok("R-BAND-DENSIFY", key, "i - j = r - mu")
            else:
                nm = tast.render(sub)
                rep.violation("R-BAND-DENSIFY", key, "compact band row r is mapped to the diagonal i - j = r - (%s); the storage convention (row = i - j + mu) requires r - mu: "
                              "entries land on the wrong diagonals when ml != mu" % nm, lets[0].get("sp"))
    if n < 8:
        return "only %d band-walking loops found (expected 8)" % n
    return None
