"""C14 Implicit methods stay stable and cheap on stiff problems (Newton-matrix hygiene)."""
import facts
import linalg
import radau

LEVEL = "other"


def run(rep, tier):
    f = facts.load("default")
    rep.rule("R-LU-FRESH", "Radau typestate: a linear solve is reachable only with factors rebuilt since the last change of the step size (flag call_decomp tracked and refined)")
    rep.rule("R-LU-CHECKED", "factorisation failures never reach the linear solves")
    rep.rule("R-JAC-REFRESH", "BDF: a re-evaluated Jacobian invalidates the factorisation before the next linear solve")
    rep.rule("R-RADAU-CONST", "the constants RADAU::solve applies (nodes, T, TI, U1/alpha/beta in right-hand sides and in E1/E2, estimator weights) satisfy the Radau IIA(5) identities to 1e-13 in 60-digit arithmetic")
    rep.rule("R-BDF-MATRIX", "BDF corrector matrix is I - c*J with c = h/alpha[order]")
    rep.rule("R-JAC-POLICY", "Radau: the decisions about re-evaluating the Jacobian are mutually consistent (same comparison => same decision at every site) and keeping the factors implies keeping the Jacobian")
    rep.rule("R-HINIT-ORDER", "every solver asks hinit for the order of the local error of its first step (explicit pairs: the method's order p; BDF: starting order + 1): the exponent of the automatic first step")
    import limits
    limits.r_hinit_order(rep, f)
    linalg.r_jac_policy(rep, f)
    linalg.r_lu_fresh(rep, f)
    linalg.r_lu_checked(rep, f)
    linalg.r_jac_refresh(rep, f)
    linalg.r_bdf_matrix(rep, f)
    ex = radau.r_radau_const(rep, f)
    rep.rule("R-RADAU-START", "Newton's starting values are the previous collocation polynomial continued to the new stage points: z_j = u_prev(1 + c_j*h/h_prev) - y as polynomial identities, h_prev the step accepted last")
    radau.r_radau_start(rep, f, ex if isinstance(ex, dict) and not ex.get("problems") else None)
    rep.rule("R-BDF-PREDICT", "BDF: the predictor sum_{j<=k} D_j equals p(x + h) for every polynomial p of degree <= k through the stored points")
    rep.rule("R-BDF-CORRECT", "BDF: the Newton residual c*f - psi - delta vanishes at a polynomial solution of degree <= k (the corrector formula has order k), the accumulated correction enters with coefficient -1 and the Newton increment moves iterate and correction alike")
    rep.rule("R-BDF-UPDATE", "BDF: after an accepted step the difference table holds nabla^j y_(n+1), j = 0..k+2, identically in the past values")
    rep.rule("R-BDF-COEFF", "BDF: gamma_k is the k-th harmonic number and alpha_k + error_const_k = gamma_k + 1/(k+1) (both tables built from the same kappa)")
    rep.rule("R-BDF-RESCALE", "BDF: change_d(D, k, theta) maps the backward differences of a polynomial of degree <= k for spacing h to those for spacing theta*h (identity in theta, h and the coefficients; orders 1..5; exact evaluation with concrete control)")
    import bdfx
    bdfx.r_bdf_rescale(rep, f)
    bdfx.r_bdf_core(rep, f)
    # a predicted or actual Newton failure must shrink the step by a factor in (0, 1): a factor of 0 stalls the solver on
    # exactly the stiff problems it exists for, a factor >= 1 retries the failing step for ever
    import C04
    rep.rule("R-REJECT-SHRINK", "implicit solvers: on every rejecting path (error test, predicted or actual Newton failure, singular matrix) the next step is c*|h| with 0 < c < 1 (interval evaluation over validated field ranges)")
    C04.r_reject_shrink(rep, f, only=("radau", "bdf"), positive=True)
    rep.rule("R-LU-SOLVE", "the linear algebra under both Newton iterations: factorise-then-solve returns the solution (lu_decomp + lin_solve, n <= 3, and the complex pair, n <= 2, evaluated exactly on every outcome of the pivot-ordering tests; A*x - b == 0 as an identity of rational functions)")
    import linalg as _linalg
    _linalg.r_lu_solve(rep, f, thorough=False)
    rep.rule("R-REJECT-CONSUMED", "the flag a rejected attempt raises (and that caps the next step at the current one) is false again at the end of every iteration that accepted its step - otherwise the step can never grow after the first rejection (symbolic latch states of one iteration, all path variants)")
    if limits.r_reject_consumed(rep, f, only=("radau", "bdf")) < 1:
        rep.inconc("R-REJECT-CONSUMED", "R-REJECT-CONSUMED:floor", "no reject flag found in Radau/BDF (expected Radau's)")
    rep.explanation = ("Decides exactly the three failure classes the property's rationale names: a broken Newton iteration (right-hand sides / matrices assembled with the wrong constants), "
                       "wrong transformation constants, and stale LU factors. NOT decided: Success on stiff problems, step counts independent of stiffness, preservation of invariants - "
                       "behaviour of the nonlinear iteration on data.")
