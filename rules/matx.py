"""R-MAT-DENSE: every Matrix operator agrees entrywise with the dense model, for every storage combination.

Shapes are enumerated (n = 1..N, storage in {Identity, Full, Banded(ml, mu) for all 0 <= ml, mu < n}); the stored numbers
are symbols.  Each operator is evaluated exactly (engine/cxs.py: concrete control, polynomial data) and the result is read
back entry by entry through the crate's own `Index` impl; `result[(i, j)] == model(a[(i, j)], b[(i, j)])` is then a
polynomial identity in the stored numbers - true for all data, not for a sample.
"""
from poly import Poly
from cx import CxUnknown
from cxs import CxS, CxPanic, deepv, dderef

M = "matrix::base::Matrix::"
IDX = "matrix::index::<impl std::ops::Index<(usize, usize)> for matrix::base::Matrix>::index"
IDXM = "matrix::index::<impl std::ops::IndexMut<(usize, usize)> for matrix::base::Matrix>::index_mut"
OPS2 = {
    "add": ("matrix::add::<impl std::ops::Add for matrix::base::Matrix>::add", lambda a, b: a + b, False),
    "sub": ("matrix::sub::<impl std::ops::Sub for matrix::base::Matrix>::sub", lambda a, b: a - b, False),
    "add_assign": ("matrix::add::<impl std::ops::AddAssign for matrix::base::Matrix>::add_assign", lambda a, b: a + b, True),
    "sub_assign": ("matrix::sub::<impl std::ops::SubAssign for matrix::base::Matrix>::sub_assign", lambda a, b: a - b, True),
    "sub_assign_ref": ("matrix::sub::<impl std::ops::SubAssign<&matrix::base::Matrix> for matrix::base::Matrix>::sub_assign", lambda a, b: a - b, True),
}
OPS1 = {
    "component_add": ("matrix::add::<impl matrix::base::Matrix>::component_add", lambda a, s: a + s, False),
    "component_sub": ("matrix::sub::<impl matrix::base::Matrix>::component_sub", lambda a, s: a - s, False),
    "component_mul": ("matrix::mul::<impl matrix::base::Matrix>::component_mul", lambda a, s: a * s, False),
    "component_mul_mut": ("matrix::mul::<impl matrix::base::Matrix>::component_mul_mut", lambda a, s: a * s, True),
}


def kinds(n):
    return [("I",), ("F",)] + [("B", ml, mu) for ml in range(n) for mu in range(n)]


def kname(k):
    return {"I": "Identity", "F": "Full"}.get(k[0]) or "Banded(%d,%d)" % (k[1], k[2])


def repinv(m, n):
    """representation invariant of a Matrix value: what every operator pattern-matching on `storage` relies on"""
    st = m.get("storage") or {}
    v = (st.get("__variant") or "").split("::")[-1]
    data = m.get("data")
    if not isinstance(data, list):
        return "data is not a vector"
    if m.get("n") != n or m.get("m") != n:
        return "dimensions are (%s, %s), expected (%d, %d)" % (m.get("n"), m.get("m"), n, n)
    if v == "Identity":
        if len(data) != 2 or data[0] != Poly.const(1) or data[1] != Poly():
            return "storage is Identity but data is %r, not [1, 0]: operators that match on the storage tag treat it as the unit matrix" % (data,)
    elif v == "Full":
        if len(data) != n * n:
            return "Full storage with %d stored numbers for a %dx%d matrix" % (len(data), n, n)
    elif v == "Banded":
        ml, mu = st.get("ml"), st.get("mu")
        if not isinstance(ml, int) or not isinstance(mu, int) or len(data) != (ml + mu + 1) * n:
            return "Banded(%s, %s) storage with %d stored numbers for n = %d" % (ml, mu, len(data), n)
    else:
        return "unknown storage %r" % (v,)
    return None


class Ctx:
    def __init__(self, f):
        self.f = f
        self.steps = 0

    def cx(self):
        return CxS(self.f)

    def call(self, d, args):
        c = self.cx()
        r = c.call_fn(d, args)
        self.steps += c.steps
        return r

    def mk(self, kind, n, tag):
        if kind == ("I",):
            return self.call(M + "identity", [n])
        if kind == ("F",):
            m = self.call(M + "full", [n, n])
        else:
            m = self.call(M + "banded", [n, kind[1], kind[2]])
        m["data"] = [Poly.atom("%s%d" % (tag, i)) for i in range(len(m["data"]))]
        return m

    def read(self, m, i, j):
        return dderef(self.call(IDX, [m, (i, j)]))

    def dense(self, m, n):
        return [[self.read(m, i, j) for j in range(n)] for i in range(n)]


def _op_case(f, opname, n):
    """all storage combinations of one operator at one size -> (cases, entries, bad, unknown, steps)"""
    d, model, inplace = (OPS2.get(opname) or OPS1.get(opname))
    binary = opname in OPS2
    cx = Ctx(f)
    s = Poly.atom("s")
    n_cases = n_entries = 0
    bad = unknown = None
    ks = kinds(n)
    for ka in ks:
        for kb in (ks if binary else [None, "zero"]):
            try:
                A = cx.mk(ka, n, "a")
                A0 = cx.dense(deepv(A), n)
                if binary:
                    B = cx.mk(kb, n, "b")
                    B0 = cx.dense(deepv(B), n)
                    arg = B
                else:
                    arg = Poly() if kb == "zero" else s      # a generic scalar, and the scalar 0 (identity shortcut paths)
                R = cx.call(d, [A, arg])
                if inplace:
                    R = A
                ri = repinv(R, n)
                if ri:
                    bad = (n, ka, kb, None, "the result violates the representation invariant: " + ri)
                    break
                got = cx.dense(R, n)
            except CxPanic as ex:
                bad = (n, ka, kb, None, "the operator panics (%s)" % ex)
                break
            except CxUnknown as ex:
                unknown = (n, ka, kb, str(ex))
                break
            n_cases += 1
            for i in range(n):
                for j in range(n):
                    n_entries += 1
                    want = model(A0[i][j], B0[i][j]) if binary else model(A0[i][j], arg)
                    if got[i][j] != want and bad is None:
                        bad = (n, ka, kb, (i, j), "entry is %r, the dense model gives %r" % (got[i][j], want))
            if bad:
                break
        if bad or unknown:
            break
    return n_cases, n_entries, bad, unknown, cx.steps


_WF = {}


def _worker(task):
    opname, n = task
    import facts as _facts
    if "f" not in _WF:
        _WF["f"] = _facts.load("default")
    r = _op_case(_WF["f"], opname, n)
    # polynomials do not need to cross the process boundary: messages only
    return (opname, n) + r


def r_mat_dense(rep, f, nmax=3, jobs=1):
    need = [IDX, M + "identity", M + "full", M + "banded"]
    if any(d not in f.bodies for d in need):
        rep.inconc("R-MAT-DENSE", "R-MAT-DENSE:anchor", "Matrix constructors / Index impl not found")
        return
    ops = [o for o in list(OPS2) + list(OPS1)]
    tasks = [(o, n) for o in ops for n in range(1, nmax + 1) if (OPS2.get(o) or OPS1.get(o))[0] in f.bodies]
    results = {}
    if jobs > 1 and nmax > 3:
        import multiprocessing as mp
        # largest sizes first
        order = sorted(tasks, key=lambda t: -t[1])
        with mp.Pool(jobs) as pool:
            for r_ in pool.imap_unordered(_worker, order):
                results[(r_[0], r_[1])] = r_[2:]
    else:
        for t in tasks:
            results[t] = _op_case(f, t[0], t[1])
    total_steps = 0
    for opname in ops:
        d = (OPS2.get(opname) or OPS1.get(opname))[0]
        key = "R-MAT-DENSE:%s" % opname
        if d not in f.bodies:
            rep.inconc("R-MAT-DENSE", key, "%s not found" % d)
            continue
        rep.fn(d)
        binary = opname in OPS2
        n_cases = n_entries = 0
        bad = unknown = None
        for n in range(1, nmax + 1):
            c_, e_, b_, u_, st_ = results[(opname, n)]
            n_cases += c_
            n_entries += e_
            total_steps += st_
            bad = bad or b_
            unknown = unknown or u_
        if bad:
            n_, ka, kb, ij, msg = bad
            rhs = (" with %s" % kname(kb)) if binary else (" with scalar %s" % ("0" if kb == "zero" else "s"))
            rep.violation("R-MAT-DENSE", key, "%s of a %dx%d %s matrix%s: %s%s" % (opname, n_, n_, kname(ka), rhs, ("at (%d, %d) the " % ij) if ij else "", msg), f.bodies[d].get("sp"))
        elif unknown:
            n_, ka, kb, why = unknown
            rep.inconc("R-MAT-DENSE", key, "%s on %s (n = %d) not evaluated: %s" % (opname, kname(ka), n_, why))
        else:
            rep.ok("R-MAT-DENSE", key, "%d storage combination(s) up to n = %d, %d entries: result[(i, j)] equals the dense model identically in the stored numbers" % (n_cases, nmax, n_entries))
    cx = Ctx(f)
    r_mat_misc(rep, f, cx, min(nmax, 5))
    rep.extra["cx_steps"] = total_steps + cx.steps


def r_mat_misc(rep, f, cx, nmax):
    """constructors, is_identity, element writes"""
    # constructors: zeros / full are all zero; identity is delta_ij; diagonal(v) is diag(v); from_vec is row-major
    key = "R-MAT-DENSE:constructors"
    probs = []
    n_c = 0
    try:
        for n in range(1, nmax + 1):
            for nm, args, want in (
                ("identity", [n], lambda i, j: Poly.const(1) if i == j else Poly()),
                ("zeros", [n, n], lambda i, j: Poly()),
                ("full", [n, n], lambda i, j: Poly()),
                ("square", [n], lambda i, j: Poly()),
                ("diagonal", [[Poly.atom("v%d" % i) for i in range(n)]], lambda i, j: Poly.atom("v%d" % i) if i == j else Poly()),
                ("from_vec", [n, n, [Poly.atom("w%d" % i) for i in range(n * n)]], lambda i, j, n=n: Poly.atom("w%d" % (i * n + j))),
                ("lower_triangular", [n], lambda i, j: Poly()),
                ("upper_triangular", [n], lambda i, j: Poly()),
            ):
                if M + nm not in f.bodies:
                    continue
                m = cx.call(M + nm, args)
                n_c += 1
                for i in range(n):
                    for j in range(n):
                        g = cx.read(m, i, j)
                        if g != want(i, j):
                            probs.append("Matrix::%s(n = %d): entry (%d, %d) reads %r, expected %r" % (nm, n, i, j, g, want(i, j)))
            for ml in range(n):
                for mu in range(n):
                    m = cx.call(M + "banded", [n, ml, mu])
                    n_c += 1
                    if any(cx.read(m, i, j) != Poly() for i in range(n) for j in range(n)):
                        probs.append("Matrix::banded(%d, %d, %d) is not the zero matrix" % (n, ml, mu))
            # from_storage(n, n, S): the zero matrix in exactly the storage S that was asked for (the solvers build the Jacobian
            # and mass matrices the user configured through it: a different descriptor rejects the user's in-band writes)
            if M + "from_storage" in f.bodies:
                for k in kinds(n):
                    want_st = cx.mk(k, n, "z")["storage"]
                    m = cx.call(M + "from_storage", [n, n, dict(want_st)])
                    n_c += 1
                    bad_inv = repinv(m, n)
                    if bad_inv:
                        probs.append("Matrix::from_storage(%d, %d, %s): %s" % (n, n, kname(k), bad_inv))
                    elif m.get("storage") != want_st:
                        probs.append("Matrix::from_storage(%d, %d, %s) has storage %r, not the one asked for" % (n, n, kname(k), m.get("storage")))
                    elif k != ("I",) and any(cx.read(m, i, j) != Poly() for i in range(n) for j in range(n)):
                        probs.append("Matrix::from_storage(%d, %d, %s) is not the zero matrix" % (n, n, kname(k)))
    except (CxUnknown, CxPanic) as ex:
        rep.inconc("R-MAT-DENSE", key, "constructor not evaluated: %s" % ex)
        probs = None
    if probs:
        rep.violation("R-MAT-DENSE", key, probs[0], None)
    elif probs is not None:
        rep.ok("R-MAT-DENSE", key, "%d constructor instances up to n = %d read back as their dense definition" % (n_c, nmax))
    # is_identity agrees with the entries
    key = "R-MAT-DENSE:is_identity"
    ISI = M + "is_identity"
    if ISI in f.bodies:
        probs, n_c = [], 0
        try:
            for n in range(1, nmax + 1):
                for k in kinds(n):
                    variants = [("symbolic data", cx.mk(k, n, "a"))]
                    if k == ("I",) and "matrix::mul::<impl matrix::base::Matrix>::component_mul_mut" in f.bodies:
                        m2 = cx.mk(k, n, "a")
                        cx.call("matrix::mul::<impl matrix::base::Matrix>::component_mul_mut", [m2, Poly.atom("s")])
                        variants.append(("Identity scaled in place by s", m2))
                    if k == ("F",):
                        m3 = cx.call(M + "full", [n, n])
                        m3["data"] = [Poly.const(1) if (q // n) == (q % n) else Poly() for q in range(n * n)]
                        variants.append(("Full storage holding the unit matrix", m3))
                    if k != ("I",):
                        # concrete contents: the unit matrix in this storage, and the unit matrix with ONE entry changed - every
                        # stored off-diagonal position in turn, and one diagonal entry (a scan that skips part of the storage
                        # answers `true` for one of these)
                        probe = cx.mk(k, n, "q")
                        slot = {}
                        for i in range(n):
                            for j in range(n):
                                a_ = cx.read(probe, i, j)
                                a_ = a_.single_atom() if isinstance(a_, Poly) else None
                                if a_ and a_.startswith("q"):
                                    slot[(i, j)] = int(a_[1:])

                        def concrete(changed=None, val=None):
                            m_ = cx.mk(k, n, "q")
                            data = [Poly() for _ in m_["data"]]
                            for (i, j), q_ in slot.items():
                                if i == j:
                                    data[q_] = Poly.const(1)
                            if changed is not None:
                                data[slot[changed]] = Poly.const(val)
                            m_["data"] = data
                            return m_
                        if all((i, i) in slot for i in range(n)):
                            variants.append(("holding the unit matrix", concrete()))
                            for (i, j) in sorted(slot):
                                if i != j:
                                    variants.append(("the unit matrix with entry (%d, %d) = 4" % (i, j), concrete((i, j), 4)))
                            variants.append(("the unit matrix with entry (%d, %d) = 2" % (n - 1, n - 1), concrete((n - 1, n - 1), 2)))
                    for what, m in variants:
                        n_c += 1
                        b = dderef(cx.call(ISI, [m]))
                        dense_id = all(cx.read(m, i, j) == (Poly.const(1) if i == j else Poly()) for i in range(n) for j in range(n))
                        if bool(b) != dense_id:
                            probs.append("is_identity() is %s for a %dx%d %s matrix (%s) whose entries %s the unit matrix" % (b, n, n, kname(k), what, "are" if dense_id else "are not"))
        except (CxUnknown, CxPanic) as ex:
            rep.inconc("R-MAT-DENSE", key, "is_identity not evaluated: %s" % ex)
            probs = None
        if probs:
            rep.violation("R-MAT-DENSE", key, probs[0], f.bodies[ISI].get("sp"))
        elif probs is not None:
            rep.ok("R-MAT-DENSE", key, "%d instances: is_identity() <=> every entry read through Index equals delta_ij" % n_c)
    # swap_rows: a row swap on Full storage; on Banded storage the entries of the two rows that are both inside the band
    # change places and every other row is untouched (the documented "logical swap within the band")
    key = "R-MAT-DENSE:swap_rows"
    SWP = M + "swap_rows"
    if SWP in f.bodies:
        probs, n_c = [], 0
        try:
            for n in range(2, nmax + 1):
                for k in kinds(n):
                    if k == ("I",):
                        continue
                    for r1 in range(n):
                        for r2 in range(n):
                            if r1 == r2:
                                continue
                            m = cx.mk(k, n, "a")
                            before = cx.dense(deepv(m), n)
                            cx.call(SWP, [m, r1, r2])
                            ri = repinv(m, n)
                            if ri:
                                probs.append("swap_rows(%d, %d) on %s: %s" % (r1, r2, kname(k), ri))
                                continue
                            after = cx.dense(m, n)
                            n_c += 1
                            inband = lambda i, j: k == ("F",) or (-k[2] <= i - j <= k[1])
                            for j in range(n):
                                for i in range(n):
                                    if i not in (r1, r2):
                                        want = before[i][j]
                                    elif inband(r1, j) and inband(r2, j):
                                        want = before[r2 if i == r1 else r1][j]
                                    else:
                                        continue      # one of the two places is outside the band: documented as lossy
                                    if after[i][j] != want:
                                        probs.append("swap_rows(%d, %d) on a %dx%d %s matrix: entry (%d, %d) is %r, expected %r" % (r1, r2, n, n, kname(k), i, j, after[i][j], want))
        except (CxUnknown, CxPanic) as ex:
            probs.append("swap_rows not evaluated or panics on a legal call: %s" % ex)
        if probs:
            rep.violation("R-MAT-DENSE", key, probs[0], f.bodies[SWP].get("sp"))
        else:
            rep.ok("R-MAT-DENSE", key, "%d row swaps: in-band pairs change places, all other rows are untouched" % n_c)
    # element writes: m[(i, j)] = v changes exactly that entry (in-band positions)
    key = "R-MAT-DENSE:index_mut"
    if IDXM in f.bodies:
        probs, n_c = [], 0
        try:
            for n in range(1, nmax + 1):
                for k in kinds(n):
                    if k == ("I",):
                        continue
                    for i in range(n):
                        for j in range(n):
                            if k[0] == "B" and not (-k[2] <= i - j <= k[1]):
                                continue      # out-of-band writes are rejected (R-IDX-DIVERGE)
                            m = cx.mk(k, n, "a")
                            before = cx.dense(deepv(m), n)
                            cell = cx.call(IDXM, [m, (i, j)])
                            cell.set(Poly.atom("v"))
                            after = cx.dense(m, n)
                            n_c += 1
                            for p in range(n):
                                for q in range(n):
                                    want = Poly.atom("v") if (p, q) == (i, j) else before[p][q]
                                    if after[p][q] != want:
                                        probs.append("writing %s[(%d, %d)] on a %dx%d matrix changes/reads entry (%d, %d) as %r (expected %r)" % (kname(k), i, j, n, n, p, q, after[p][q], want))
        except (CxUnknown, CxPanic) as ex:
            rep.inconc("R-MAT-DENSE", key, "index_mut not evaluated: %s" % ex)
            probs = None
        if probs:
            rep.violation("R-MAT-DENSE", key, probs[0], f.bodies[IDXM].get("sp"))
        elif probs is not None:
            rep.ok("R-MAT-DENSE", key, "%d in-band element writes: exactly the addressed entry changes" % n_c)


def r_mat_write_guard(rep, f, nmax=3):
    """writes outside the band, and any write into an Identity matrix, panic instead of corrupting data: the evaluation of
    index_mut reaches a panic for every such position and leaves the stored numbers untouched"""
    key = "R-MAT-DENSE:write-guard"
    if IDXM not in f.bodies:
        rep.inconc("R-MAT-DENSE", key, "IndexMut impl not found")
        return
    cx = Ctx(f)
    probs, n_c = [], 0
    try:
        for n in range(1, nmax + 1):
            for k in kinds(n):
                for i in range(n):
                    for j in range(n):
                        if k == ("F",) or (k[0] == "B" and (-k[2] <= i - j <= k[1])):
                            continue
                        m = cx.mk(k, n, "a")
                        before = deepv(m)
                        n_c += 1
                        try:
                            cx.call(IDXM, [m, (i, j)])
                            probs.append("index_mut(%d, %d) on a %dx%d %s matrix returns a reference instead of panicking" % (i, j, n, n, kname(k)))
                        except CxPanic:
                            if m != before:
                                probs.append("index_mut(%d, %d) on %s modifies the matrix before panicking" % (i, j, kname(k)))
            # out-of-range indices
            for k in kinds(n):
                m = cx.mk(k, n, "a")
                n_c += 1
                try:
                    cx.call(IDX, [m, (n, 0)])
                    probs.append("index(%d, 0) on a %dx%d %s matrix does not panic" % (n, n, n, kname(k)))
                except CxPanic:
                    pass
    except CxUnknown as ex:
        rep.inconc("R-MAT-DENSE", key, "index_mut not evaluated: %s" % ex)
        return
    if probs:
        rep.violation("R-MAT-DENSE", key, probs[0], f.bodies[IDXM].get("sp"))
    else:
        rep.ok("R-MAT-DENSE", key, "%d illegal accesses (outside the band, Identity, out of range) all reach a panic with the data untouched" % n_c)


def r_mass_default_dense(rep, f, nmax=3):
    """IVP::mass default: whatever storage the solver allocated, the matrix reads as the identity afterwards"""
    d = "ivp::IVP::mass"
    key = "R-MASS-DEFAULT:dense"
    if d not in f.bodies:
        rep.inconc("R-MASS-DEFAULT", key, "default body of IVP::mass not found")
        return
    cx = Ctx(f)
    probs, n_c = [], 0
    try:
        for n in range(1, nmax + 1):
            for k in kinds(n):
                m = cx.mk(k, n, "g")       # garbage contents: the default must overwrite, not update
                cx.call(d, [{"__adt": "user"}, m])
                n_c += 1
                ri = repinv(m, n)
                if ri:
                    probs.append("after the default IVP::mass a %dx%d %s matrix violates the representation invariant: %s" % (n, n, kname(k), ri))
                    continue
                for i in range(n):
                    for j in range(n):
                        g = cx.read(m, i, j)
                        if g != (Poly.const(1) if i == j else Poly()):
                            probs.append("after the default IVP::mass a %dx%d %s mass matrix reads %r at (%d, %d)" % (n, n, kname(k), g, i, j))
    except (CxUnknown, CxPanic) as ex:
        rep.inconc("R-MASS-DEFAULT", key, "default IVP::mass not evaluated: %s" % ex)
        return
    if probs:
        rep.violation("R-MASS-DEFAULT", key, probs[0], f.bodies[d].get("sp"))
    else:
        rep.ok("R-MASS-DEFAULT", key, "%d storage shapes up to n = %d: the default mass matrix reads as the identity" % (n_c, nmax))
