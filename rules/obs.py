"""Observer-independence rules (C12, shared with C05)."""
import tast
import eff

OPT = "solve::options::Options::"
SOLVE_IVP = "solve::solve_ivp::solve_ivp"


def tainted_locals(body, is_source):
    """locals (ids) whose initialiser mentions a source expression or another tainted local"""
    t = set()
    changed = True
    lets = tast.find(body, lambda z: z.get("k") == "Let" and z.get("init") is not None)
    while changed:
        changed = False
        for l in lets:
            ids = [b["id"] for b in tast.find(l["pat"], lambda z: z.get("k") == "PBind")]
            if all(i in t for i in ids) or not ids:
                continue
            init = l["init"]
            # the default output handler is the sanctioned sink of the reporting options
            if init.get("k") == "Call" and (init.get("def") or "").startswith("solve::solout::DefaultSolOut"):
                continue
            if tast.contains(init, lambda z: is_source(z) or (z.get("k") == "Path" and z.get("id") in t)):
                t.update(ids)
                changed = True
    return t


def r_obs_fields(rep, f):
    fields = ("t_eval", "dense_output")
    is_src = lambda z: z.get("k") == "Field" and (z.get("fdef") or "") in [OPT + x for x in fields]
    # (1) who reads the fields
    readers = {}
    for b in f.body_list:
        n = tast.find(b["body"], is_src)
        if n:
            readers[b["def"]] = n
    # solve_ivp and the private helpers of its module (they are part of solve_ivp for this purpose and are scanned below)
    helpers = [d for d in f.bodies if d.startswith("solve::solve_ivp::") and d != SOLVE_IVP and f.inlinable(d)]
    allowed = lambda d: d == SOLVE_IVP or d in helpers or d.startswith("solve::options::") or d.startswith("<solve::options::") or d.startswith("python::")
    bad = [d for d in readers if not allowed(d)]
    key = "R-OBS-FIELDS:readers"
    if bad:
        rep.violation("R-OBS-FIELDS", key, "Options::t_eval / dense_output are read in %s" % bad[:3], readers[bad[0]][0].get("sp"))
    elif SOLVE_IVP not in readers:
        rep.inconc("R-OBS-FIELDS", key, "solve_ivp does not read t_eval/dense_output: anchor drift")
        return
    else:
        rep.ok("R-OBS-FIELDS", key, "read only in solve_ivp (%d sites)" % len(readers[SOLVE_IVP]))
    # (2) in solve_ivp nothing derived from them reaches a stepper (builder setters or solve())
    body = f.body(SOLVE_IVP)["body"]
    rep.fn(SOLVE_IVP)
    tl = tainted_locals(body, is_src)
    hits = []
    n_calls = 0
    all_calls = list(tast.find(body, lambda z: z.get("k") in ("MethodCall", "Call")))
    for hd in helpers:
        hb = f.bodies[hd]["body"]
        htl = tainted_locals(hb, is_src)
        for c in tast.find(hb, lambda z: z.get("k") in ("MethodCall", "Call") and (z.get("def") or "").startswith("methods::")):
            if any(tast.contains(a, lambda z: is_src(z) or (z.get("k") == "Path" and z.get("id") in htl)) for a in c["args"]) or "dense_output" in (c.get("def") or "").split("::")[-1]:
                hits.append(c)
    for c in all_calls:
        d = c.get("def") or ""
        if not d.startswith("methods::"):
            continue
        n_calls += 1
        args = c["args"]
        if any(tast.contains(a, lambda z: is_src(z) or (z.get("k") == "Path" and z.get("id") in tl)) for a in args):
            hits.append(c)
        if "dense_output" in d.split("::")[-1]:
            hits.append(c)
    key = "R-OBS-FIELDS:steppers"
    if hits:
        rep.violation("R-OBS-FIELDS", key, "a reporting option reaches a stepper: %s" % tast.render(hits[0])[:120], hits[0].get("sp"))
    elif n_calls < 20:
        rep.inconc("R-OBS-FIELDS", key, "only %d stepper builder/solve calls found in solve_ivp (expected >= 20)" % n_calls)
    else:
        rep.ok("R-OBS-FIELDS", key, "%d builder/solve calls on the six steppers, none receives t_eval/dense_output or a value derived from them" % n_calls)


def r_teval_passthrough(rep, f):
    """the requested times reach the output handler exactly as given: the t_eval argument of DefaultSolOut::new in solve_ivp
    is Options::t_eval passed through clones / reborrows only (no sort, reverse, filter, arithmetic map, dedup): the handler
    reports `t_eval[i]` verbatim and walks it with one forward cursor in the direction of integration"""
    key = "R-TEVAL-PASSTHROUGH:solve_ivp"
    b = f.bodies.get(SOLVE_IVP)
    if b is None:
        rep.inconc("R-TEVAL-PASSTHROUGH", key, "solve_ivp not found")
        return
    body = b["body"]
    is_src = lambda z: z.get("k") == "Field" and (z.get("fdef") or "") == OPT + "t_eval"
    news = tast.find(body, lambda z: z.get("k") == "Call" and (z.get("def") or "").startswith("solve::solout::DefaultSolOut") and (z.get("def") or "").endswith("::new"))
    if len(news) != 1:
        rep.inconc("R-TEVAL-PASSTHROUGH", key, "expected one DefaultSolOut::new in solve_ivp, found %d" % len(news))
        return
    PURE = ("clone", "as_ref", "as_deref", "to_vec", "to_owned", "cloned", "copied", "into", "as_slice", "as_mut", "map", "borrow")

    def passthrough(e, params=(), depth=0):
        """(is a pass-through of the source, why not)"""
        if e is None or depth > 12:
            return False, "too deep"
        k = e.get("k")
        if is_src(e):
            return True, None
        if k in ("AddrOf", "Cast", "DropTemps") or (k == "Unary" and e.get("op") == "Deref"):
            return passthrough(e["e"], params, depth + 1)
        if k == "Path" and e.get("res") == "local":
            if e.get("id") in params:
                return True, None
            lets = tast.find(body, lambda z: z.get("k") == "Let" and z["pat"].get("id") == e.get("id") and z.get("init") is not None)
            muts = tast.find(body, lambda z: z.get("k") == "MethodCall" and z.get("name") not in PURE + ("len", "is_empty", "iter", "first", "last", "is_some", "is_none")
                             and tast.contains(z["recv"], lambda q: q.get("k") == "Path" and q.get("id") == e.get("id")) and "M" in ((z["recv"].get("adj") or "") + "".join(q.get("adj") or "" for q in tast.find(z["recv"], lambda q: q.get("k") == "Path"))))
            if muts:
                return False, "`%s` is called on it" % muts[0].get("name")
            if len(lets) == 1:
                return passthrough(lets[0]["init"], params, depth + 1)
            return False, "local `%s` is not a single binding" % e.get("name")
        if k == "MethodCall" and e.get("name") in PURE:
            ok, why = passthrough(e["recv"], params, depth + 1)
            if not ok:
                return ok, why
            if e["name"] == "map" and e["args"] and e["args"][0].get("k") == "Closure":
                cl = e["args"][0]
                pids = tuple(q["id"] for q in tast.find(cl["params"], lambda q: q.get("k") == "PBind"))
                bodyc = cl["body"]
                if bodyc.get("k") == "Block":
                    if bodyc.get("stmts"):
                        st = bodyc["stmts"][0]
                        inner = st.get("e") if st.get("k") in ("ExprStmt", "Semi") else st
                        return False, "the closure does more than hand the value on (`%s`)" % tast.render(inner)[:60]
                    bodyc = bodyc.get("tail") or bodyc.get("expr")
                return passthrough(bodyc, params + pids, depth + 1)
            return True, None
        if k == "Call" and (e.get("def") or "").endswith(("Some",)) and len(e.get("args", [])) == 1:
            return passthrough(e["args"][0], params, depth + 1)
        return False, "`%s` transforms the requested times" % tast.render(e)[:70]
    cands = [a for a in news[0]["args"] if tast.contains(a, is_src) or (a.get("k") == "Path" and "Vec<f64>" in (a.get("ty") or "") and "Option" in (a.get("ty") or ""))]
    if len(cands) != 1:
        rep.inconc("R-TEVAL-PASSTHROUGH", key, "t_eval argument of DefaultSolOut::new not identified (%d candidates)" % len(cands))
        return
    ok, why = passthrough(cands[0])
    if ok:
        rep.ok("R-TEVAL-PASSTHROUGH", key, "DefaultSolOut::new receives Options::t_eval through clones / reborrows only")
    else:
        rep.violation("R-TEVAL-PASSTHROUGH", key, "the requested times are transformed on their way to the output handler (%s): they would no longer be reported verbatim and in the requested order "
                      "(a decreasing t_eval of a backward run must stay decreasing)" % why, cands[0].get("sp"))


def r_teval_shortcut(rep, f):
    """early returns of solve_ivp (degenerate span, empty state) never reach the output handler: when t_eval is given, the
    times they report are a selection of the requested times themselves (clone / iter / filter / copied / collect), never
    values rebuilt from something else (x0 repeated, a counter, arithmetic on the request)"""
    key = "R-TEVAL-SHORTCUT:solve_ivp"
    b = f.bodies.get(SOLVE_IVP)
    if b is None:
        rep.inconc("R-TEVAL-SHORTCUT", key, "solve_ivp not found")
        return
    body = b["body"]
    is_src = lambda z: z.get("k") == "Field" and (z.get("fdef") or "") == OPT + "t_eval"
    SELECT = ("clone", "as_ref", "as_deref", "to_vec", "to_owned", "cloned", "copied", "into", "as_slice", "borrow", "iter", "into_iter",
              "filter", "take_while", "skip_while", "collect", "unwrap", "expect")
    structs = tast.find(body, lambda z: z.get("k") == "Struct" and (z.get("def") or "").endswith("solution::Solution"))
    if not structs:
        rep.inconc("R-TEVAL-SHORTCUT", key, "no Solution literal found in solve_ivp")
        return

    def unwrap(e):
        while e is not None and e.get("k") in ("AddrOf", "Cast", "DropTemps", "Paren") or (e is not None and e.get("k") == "Unary" and e.get("op") == "Deref"):
            e = e["e"]
        return e

    def tail_of(e):
        e = unwrap(e)
        while e is not None and e.get("k") == "Block":
            e = unwrap(e.get("tail") or e.get("expr"))
        return e

    def leaves(e, some, binds, idx=None, depth=0):
        """(leaf expression, inside the `t_eval is Some` branch?, names bound to the requested times)"""
        e = tail_of(e)
        if e is None or depth > 14:
            yield e, some, binds
            return
        k = e.get("k")
        if k == "If":
            c = e["cond"]
            if c.get("k") == "LetExpr" and tast.contains(c["init"], is_src) and (c["pat"].get("ctor_of") or c["pat"].get("def") or "").endswith("Some"):
                ids = tuple(q["id"] for q in tast.find(c["pat"], lambda q: q.get("k") == "PBind"))
                yield from leaves(e["then"], True, binds + ids, idx, depth + 1)
                if e.get("else") is not None:
                    yield from leaves(e["else"], False, binds, idx, depth + 1)
                return
            yield from leaves(e["then"], some, binds, idx, depth + 1)
            if e.get("else") is not None:
                yield from leaves(e["else"], some, binds, idx, depth + 1)
            return
        if k == "Match":
            on_src = tast.contains(e["scrut"], is_src)
            for arm in e.get("arms", []):
                pat = arm["pat"]
                if on_src and (pat.get("ctor_of") or pat.get("def") or "").endswith("Some"):
                    ids = tuple(q["id"] for q in tast.find(pat, lambda q: q.get("k") == "PBind"))
                    yield from leaves(arm["body"], True, binds + ids, idx, depth + 1)
                else:
                    yield from leaves(arm["body"], False if on_src else some, binds, idx, depth + 1)
            return
        if k == "Tuple" and idx is not None:
            yield from leaves(e["elems"][idx], some, binds, None, depth + 1)
            return
        if k == "Path" and e.get("res") == "local" and e.get("id") not in binds:
            lets = tast.find(body, lambda z: z.get("k") == "Let" and z.get("init") is not None and tast.contains(z["pat"], lambda q: q.get("k") == "PBind" and q.get("id") == e.get("id")))
            if len(lets) == 1:
                pat = lets[0]["pat"]
                if pat.get("k") == "PBind":
                    i0 = lets[0]["init"]
                    if i0.get("k") == "Call" and (i0.get("def") or "").endswith(("Vec::<T>::new", "Vec::<T>::with_capacity", "Vec::new", "Vec::with_capacity")):
                        # a vector built by pushes: `selection` judges what is pushed into it
                        yield e, some, binds
                        return
                    yield from leaves(i0, some, binds, idx, depth + 1)
                    return
                if pat.get("k") == "PTuple":
                    pos = [i for i, q in enumerate(pat["pats"]) if q.get("k") == "PBind" and q.get("id") == e.get("id")]
                    if pos:
                        yield from leaves(lets[0]["init"], some, binds, pos[0], depth + 1)
                        return
        yield e, some, binds

    def selection(e, binds, depth=0):
        e = unwrap(e)
        if e is None or depth > 12:
            return False
        if is_src(e) or (e.get("k") == "Path" and e.get("id") in binds):
            return True
        if e.get("k") == "MethodCall" and e.get("name") in SELECT:
            return selection(e["recv"], binds, depth + 1)
        if e.get("k") == "Path" and e.get("res") == "local":
            # a vector filled only by pushing elements met while iterating over (a selection of) the requested times
            lets = tast.find(body, lambda z: z.get("k") == "Let" and z["pat"].get("k") == "PBind" and z["pat"].get("id") == e.get("id"))
            if len(lets) != 1:
                return False
            init = lets[0].get("init")
            if init is not None and not (init.get("k") == "Call" and (init.get("def") or "").endswith(("Vec::<T>::new", "Vec::<T>::with_capacity", "Vec::new", "Vec::with_capacity"))):
                return selection(init, binds, depth + 1)
            muts = tast.find(body, lambda z: z.get("k") == "MethodCall" and unwrap(z["recv"]) is not None and unwrap(z["recv"]).get("k") == "Path" and unwrap(z["recv"]).get("id") == e.get("id")
                             and z.get("name") not in ("len", "is_empty", "iter", "clone", "last", "first", "capacity", "reserve", "as_slice"))
            if not muts or tast.contains(body, lambda z: z.get("k") in ("Assign", "AssignOp") and tast.contains(z["l"], lambda q: q.get("k") == "Path" and q.get("id") == e.get("id"))):
                return False
            for m_ in muts:
                if m_.get("name") != "push" or len(m_["args"]) != 1:
                    return False
                a_ = unwrap(m_["args"][0])
                if a_ is None or a_.get("k") != "Path":
                    return False
                fors = [fo for fo in tast.find(body, lambda z: z.get("k") == "For") if tast.contains(fo["pat"], lambda q: q.get("k") == "PBind" and q.get("id") == a_.get("id")) and tast.contains(fo["body"], lambda q: q is m_)]
                if len(fors) != 1 or not selection(fors[0]["iter"], binds, depth + 1):
                    return False
            return True
        return False

    def defaulted(e, binds):
        """Option<selection>.unwrap_or*(default): the requested times when given, the default otherwise"""
        e = unwrap(e)
        return e is not None and e.get("k") == "MethodCall" and e.get("name") in ("unwrap_or_else", "unwrap_or", "unwrap_or_default") and selection(e["recv"], binds) \
            and not any(tast.contains(a_, is_src) for a_ in e["args"])
    n_sel = n_other = 0
    bad = []
    for st in structs:
        fl = next((x for x in st["fields"] if x.get("name") == "t"), None)
        if fl is None:
            continue
        for leaf, some, binds in leaves(fl["e"], False, ()):
            if leaf is None:
                continue
            from_handler = tast.contains(leaf, lambda z: (z.get("k") == "Field" and (z.get("fdef") or "").startswith("solve::solout::DefaultSolOut")) or
                                         (z.get("k") in ("Call", "MethodCall") and "DefaultSolOut" in (z.get("def") or "")))
            if from_handler:
                n_other += 1
                continue
            if not some:
                if defaulted(leaf, binds):
                    n_sel += 1
                    continue
                if tast.contains(leaf, is_src):
                    bad.append((leaf, "reads t_eval outside an `if let Some(..) = options.t_eval` test"))
                n_other += 1
                continue
            if selection(leaf, binds):
                n_sel += 1
            else:
                bad.append((leaf, "is not a selection of the requested times"))
    for leaf, why in bad:
        rep.violation("R-TEVAL-SHORTCUT", key + ":" + tast.render(leaf)[:50], "a return of solve_ivp that bypasses the output handler reports, with t_eval given, `%s`, which %s: the reported times "
                      "are then not bit-for-bit the requested ones" % (tast.render(leaf)[:90], why), leaf.get("sp"))
    if not bad:
        rep.ok("R-TEVAL-SHORTCUT", key, "%d Solution literal(s): %d shortcut time vector(s) under t_eval are selections of t_eval itself; %d come from the handler or from the no-t_eval branch" % (len(structs), n_sel, n_other))


DENY = ("std::time::", "std::thread::", "std::sync::", "std::env::", "std::fs::", "std::collections::hash", "std::collections::HashMap",
        "std::collections::HashSet", "rand::", "std::process::", "std::net::", "std::io::stdin", "std::hash::RandomState",
        "std::ptr::", "std::mem::transmute", "std::cell::", "std::rc::")


def r_determinism(rep, f):
    cg = eff.CallGraph(f)
    reach = cg.reachable(SOLVE_IVP)
    key = "R-DETERMINISM"
    if len(reach) < 15:
        rep.inconc(key, key + ":floor", "only %d functions reachable from solve_ivp in the MIR call graph" % len(reach))
        return
    hits = cg.reaches_call(SOLVE_IVP, lambda c, r, t: any((c or "").startswith(p) or (r or "").startswith(p) for p in DENY))
    # format_args!/panic machinery is excluded: only from macro expansion
    if hits:
        d, c, sp = hits[0]
        rep.violation(key, "%s:%s:%s" % (key, d, c), "%s (reachable from solve_ivp) calls %s: results may differ between identical runs" % (d, c), sp)
    else:
        rep.ok(key, key + ":calls", "%d functions reachable from solve_ivp, none calls a clock/thread/env/fs/hash-map/rand/interior-mutability API" % len(reach))
    # unsafe blocks and statics
    uns = []
    for d in reach:
        b = f.bodies.get(d)
        if b is None:
            continue
        if tast.contains(b["body"], lambda z: z.get("k") == "Block" and z.get("unsafe") and not z.get("mx")):
            uns.append(d)
        if tast.contains(b["body"], lambda z: z.get("k") == "Path" and z.get("dk") == "Static"):
            uns.append(d + " (static)")
    if uns:
        rep.violation(key, key + ":unsafe:" + uns[0], "unsafe block / static access in %s (reachable from solve_ivp)" % uns[0])
    else:
        rep.ok(key, key + ":unsafe", "no unsafe block or static access in the reachable crate code")
    rep.extra["reachable_from_solve_ivp"] = len(reach)


def r_zero_span(rep, f):
    """A zero-length run (x0 == xend) is answered by solve_ivp itself: initial state, Success, all counters zero - the steppers
    are not built for it (their first step-size test reports StepSizeTooSmall and the derivative evaluations they made are
    counted).  The shortcut's condition is evaluated numerically at x0 == xend for several magnitudes of the end points, 0
    included: it must hold at every one."""
    import pnum
    from symx import SymExec, Hooks
    from poly import Poly, DEFS
    fn = "solve::solve_ivp::solve_ivp"
    b = f.bodies.get(fn)
    key = "R-ZERO-SPAN:solve_ivp"
    if b is None:
        rep.inconc("R-ZERO-SPAN", key, "solve_ivp not found")
        return
    rep.fn(fn)
    pn = {p_.get("name"): p_.get("id") for p_ in b.get("params", []) if p_.get("k") == "PBind"}
    if "x0" not in pn or "xend" not in pn:
        rep.inconc("R-ZERO-SPAN", key, "solve_ivp has no parameters named x0 / xend")
        return
    # the shortcut: the first `if` of the body whose condition reads both ends and whose branch returns
    def cond_of(i_):
        # a named boolean stands for its initialiser
        c = i_["cond"]
        for _ in range(3):
            while c.get("k") in ("Paren", "DropTemps"):
                c = c["e"]
            if c.get("k") == "Path" and c.get("res") == "local" and (c.get("ty") or "") == "bool":
                lets = tast.find(b["body"], lambda z: z.get("k") == "Let" and z["pat"].get("k") == "PBind" and z["pat"].get("id") == c.get("id") and z.get("init") is not None)
                if len(lets) == 1:
                    c = lets[0]["init"]
                    continue
            break
        return c
    cands = [i_ for i_ in tast.find(b["body"], lambda z: z.get("k") == "If" and z["cond"].get("k") != "LetExpr")
             if tast.contains(cond_of(i_), lambda q: q.get("k") == "Path" and q.get("id") == pn["x0"]) and tast.contains(cond_of(i_), lambda q: q.get("k") == "Path" and q.get("id") == pn["xend"])
             and tast.contains(i_["then"], lambda q: q.get("k") == "Return")]
    if not cands:
        rep.violation("R-ZERO-SPAN", key, "solve_ivp has no shortcut for x0 == xend (an `if` on both end points that returns): a zero-length run reaches the steppers", b.get("sp"))
        return
    sx = SymExec(f, fn, Hooks())
    sx.bind_params()
    try:
        sx.eval(b["body"])
    except Exception as e:
        rep.inconc("R-ZERO-SPAN", key, "solve_ivp not interpreted: %s" % e)
        return
    cond = None
    for ev in sx.trace:
        if ev.get("kind") == "if" and ev.get("node") is cands[0]:
            cond = ev.get("cond")
            break
    if not isinstance(cond, Poly):
        rep.inconc("R-ZERO-SPAN", key, "the shortcut's condition was not evaluated symbolically")
        return
    bad = None
    pts = (0.0, 1.23, -5.0, 1e-300, 1e300, -1e-8)
    for v in pts:
        leaf = lambda nm, v=v: v if nm in ("x0", "xend") else 0.5
        try:
            r = pnum.value(cond, {}, leaf)
        except pnum.NoEval as e:
            rep.inconc("R-ZERO-SPAN", key, "the shortcut's condition %r could not be evaluated at x0 == xend == %r: %s" % (cond, v, e), cands[0].get("sp"))
            return
        if r is not True and bad is None:
            bad = v
    if bad is not None:
        rep.violation("R-ZERO-SPAN", key, "the zero-interval shortcut `%s` is false for x0 == xend == %r: the run reaches the stepper, which evaluates the right-hand side, counts it, "
                      "and ends with its step-size underflow status" % (tast.render(cond_of(cands[0]))[:70], bad), cands[0].get("sp"))
    else:
        rep.ok("R-ZERO-SPAN", key, "`%s` holds for x0 == xend at %d magnitudes of the end points (0 included)" % (tast.render(cond_of(cands[0]))[:60], len(pts)))
