"""Observer-independence rules (C12, shared with C05)."""
import tast
import eff

OPT = "solve::options::Options::"
SOLVE_IVP = "solve::solve_ivp::solve_ivp"


def tainted_locals(body, is_source):
    """locals (ids) whose initialiser mentions a source expression or another tainted local"""
    t = set()
    changed = True
    lets = tast.find(body, lambda z: z.get("k") == "Let" and z.get("init") is not None)
    while changed:
        changed = False
        for l in lets:
            ids = [b["id"] for b in tast.find(l["pat"], lambda z: z.get("k") == "PBind")]
            if all(i in t for i in ids) or not ids:
                continue
            init = l["init"]
            # the default output handler is the sanctioned sink of the reporting options
            if init.get("k") == "Call" and (init.get("def") or "").startswith("solve::solout::DefaultSolOut"):
                continue
            if tast.contains(init, lambda z: is_source(z) or (z.get("k") == "Path" and z.get("id") in t)):
                t.update(ids)
                changed = True
    return t


def r_obs_fields(rep, f):
    fields = ("t_eval", "dense_output")
    is_src = lambda z: z.get("k") == "Field" and (z.get("fdef") or "") in [OPT + x for x in fields]
    # (1) who reads the fields
    readers = {}
    for b in f.body_list:
        n = tast.find(b["body"], is_src)
        if n:
            readers[b["def"]] = n
    allowed = lambda d: d == SOLVE_IVP or d.startswith("solve::options::") or d.startswith("<solve::options::") or d.startswith("python::")
    bad = [d for d in readers if not allowed(d)]
    key = "R-OBS-FIELDS:readers"
    if bad:
        rep.violation("R-OBS-FIELDS", key, "Options::t_eval / dense_output are read in %s" % bad[:3], readers[bad[0]][0].get("sp"))
    elif SOLVE_IVP not in readers:
        rep.inconc("R-OBS-FIELDS", key, "solve_ivp does not read t_eval/dense_output: anchor drift")
        return
    else:
        rep.ok("R-OBS-FIELDS", key, "read only in solve_ivp (%d sites)" % len(readers[SOLVE_IVP]))
    # (2) in solve_ivp nothing derived from them reaches a stepper (builder setters or solve())
    body = f.body(SOLVE_IVP)["body"]
    rep.fn(SOLVE_IVP)
    tl = tainted_locals(body, is_src)
    hits = []
    n_calls = 0
    for c in tast.find(body, lambda z: z.get("k") in ("MethodCall", "Call")):
        d = c.get("def") or ""
        if not d.startswith("methods::"):
            continue
        n_calls += 1
        args = c["args"]
        if any(tast.contains(a, lambda z: is_src(z) or (z.get("k") == "Path" and z.get("id") in tl)) for a in args):
            hits.append(c)
        if "dense_output" in d.split("::")[-1]:
            hits.append(c)
    key = "R-OBS-FIELDS:steppers"
    if hits:
        rep.violation("R-OBS-FIELDS", key, "a reporting option reaches a stepper: %s" % tast.render(hits[0])[:120], hits[0].get("sp"))
    elif n_calls < 20:
        rep.inconc("R-OBS-FIELDS", key, "only %d stepper builder/solve calls found in solve_ivp (expected >= 20)" % n_calls)
    else:
        rep.ok("R-OBS-FIELDS", key, "%d builder/solve calls on the six steppers, none receives t_eval/dense_output or a value derived from them" % n_calls)


DENY = ("std::time::", "std::thread::", "std::sync::", "std::env::", "std::fs::", "std::collections::hash", "std::collections::HashMap",
        "std::collections::HashSet", "rand::", "std::process::", "std::net::", "std::io::stdin", "std::hash::RandomState",
        "std::ptr::", "std::mem::transmute", "std::cell::", "std::rc::")


def r_determinism(rep, f):
    cg = eff.CallGraph(f)
    reach = cg.reachable(SOLVE_IVP)
    key = "R-DETERMINISM"
    if len(reach) < 15:
        rep.inconc(key, key + ":floor", "only %d functions reachable from solve_ivp in the MIR call graph" % len(reach))
        return
    hits = cg.reaches_call(SOLVE_IVP, lambda c, r, t: any((c or "").startswith(p) or (r or "").startswith(p) for p in DENY))
    # format_args!/panic machinery is excluded: only from macro expansion
    if hits:
        d, c, sp = hits[0]
        rep.violation(key, "%s:%s:%s" % (key, d, c), "%s (reachable from solve_ivp) calls %s: results may differ between identical runs" % (d, c), sp)
    else:
        rep.ok(key, key + ":calls", "%d functions reachable from solve_ivp, none calls a clock/thread/env/fs/hash-map/rand/interior-mutability API" % len(reach))
    # unsafe blocks and statics
    uns = []
    for d in reach:
        b = f.bodies.get(d)
        if b is None:
            continue
        if tast.contains(b["body"], lambda z: z.get("k") == "Block" and z.get("unsafe") and not z.get("mx")):
            uns.append(d)
        if tast.contains(b["body"], lambda z: z.get("k") == "Path" and z.get("dk") == "Static"):
            uns.append(d + " (static)")
    if uns:
        rep.violation(key, key + ":unsafe:" + uns[0], "unsafe block / static access in %s (reachable from solve_ivp)" % uns[0])
    else:
        rep.ok(key, key + ":unsafe", "no unsafe block or static access in the reachable crate code")
    rep.extra["reachable_from_solve_ivp"] = len(reach)
