"""C18 Reported statistics count what actually happened."""
import facts
import tast
import mon
import eff
from protocol import AccMon, acc_rule, main_loop_of, SOLVERS, SOLOUT

LEVEL = "other"

ODE = "ivp::IVP::ode"
JAC = "ivp::IVP::jac"
LIM = 64


def clamp(v):
    return max(-LIM, min(LIM, v))


def pure_cond(c):
    """a condition built only from locals, fields, literals and operators (re-evaluating it gives the same value
    unless one of its variables is assigned in between)"""
    return not tast.contains(c, lambda z: z.get("k") in ("MethodCall", "Call", "Index", "LetExpr", "Closure", "Block", "If", "Match"))


def cond_ids(c):
    return tuple(sorted({p["id"] for p in tast.find(c, lambda z: z.get("k") == "Path" and z.get("res") == "local")}))


def lit_of_block(b):
    if b is None:
        return None
    if b.get("k") == "Lit":
        return mon.is_lit_int(b)
    if b.get("k") == "Block" and not b.get("stmts") and b.get("tail") is not None:
        return lit_of_block(b["tail"])
    return None


class CountMon(mon.Monitor):
    """state = (delta, pending, memo):  delta = (#calls of `call_def` so far) - (sum of increments of the counter field);
    pending = literal selected by an `if`-expression that is the right-hand side of an increment;
    memo = truth values of pure conditions already decided on this path (the same condition tested twice is correlated)."""
    init = ((0, None, frozenset(), None),)
    # 4th component: None = `delta` is calls - increments; ("B", vpos) = a loop counter v is live and `delta` stands for
    # calls - increments - v (the counter field is brought up to date later by `field += v + c`); vpos: v may be > 0

    def __init__(self, rule, fn, call_def, field, summaries, body=None):
        super().__init__()
        self.rule, self.fn, self.call_def, self.field, self.summaries = rule, fn, call_def, field, summaries
        self.nonliteral = []
        self.tracked = {}      # id of an increment node `field += v + c` -> (v id, c)
        self.tracked_var = None
        if body is not None:
            for n in tast.find(body["body"], lambda z: z.get("k") == "AssignOp" and z.get("op") in ("Add", "AddAssign") and z["l"].get("k") == "Field"
                               and (z["l"].get("fdef") or "") == field and mon.is_lit_int(z["r"]) is None):
                r = n["r"]
                while r.get("k") == "Cast":
                    r = r["e"]
                v, c = None, 0
                if r.get("k") == "Path" and r.get("res") == "local" and "usize" in (r.get("ty") or ""):
                    v = r["id"]
                elif r.get("k") == "Binary" and r["op"] == "Add":
                    for a_, b_ in ((r["l"], r["r"]), (r["r"], r["l"])):
                        if a_.get("k") == "Path" and a_.get("res") == "local" and "usize" in (a_.get("ty") or "") and mon.is_lit_int(b_) is not None:
                            v, c = a_["id"], mon.is_lit_int(b_)
                if v is not None and (self.tracked_var in (None, v)):
                    self.tracked[id(n)] = (v, c)
                    self.tracked_var = v
            # loops that advance the tracked counter do not have to balance per cycle: the field is updated after them
            self.counter_loops = set()
            if self.tracked_var is not None:
                for lp in tast.find(body["body"], lambda z: z.get("k") in ("Loop", "For")):
                    if tast.contains(lp["body"], lambda z: z.get("k") == "AssignOp" and z["l"].get("k") == "Path" and z["l"].get("id") == self.tracked_var):
                        inner = [l2 for l2 in tast.find(lp["body"], lambda z: z.get("k") in ("Loop", "For")) if tast.contains(l2["body"], lambda z: z.get("k") == "AssignOp" and z["l"].get("k") == "Path" and z["l"].get("id") == self.tracked_var)]
                        if not inner:
                            self.counter_loops.add(id(lp))
        self.loops = {}
        self._call_nodes = set()
        self._incr_nodes = set()
        self.if_rhs = {}
        self.repeated = set()
        if body is not None:
            seen = {}
            for n in tast.find(body["body"], lambda z: z.get("k") == "If" and pure_cond(z["cond"])):
                key = (tast.render(n["cond"]), cond_ids(n["cond"]))
                seen[key] = seen.get(key, 0) + 1
            # only conditions tested more than once can be correlated; remembering the others would only blow up the state space
            self.repeated = {k for k, c in seen.items() if c >= 2}
            for n in tast.find(body["body"], lambda z: z.get("k") == "AssignOp" and z["l"].get("k") == "Field" and (z["l"].get("fdef") or "") == field
                               and z["r"].get("k") == "If"):
                r = n["r"]
                a_, b_ = lit_of_block(r["then"]), lit_of_block(r.get("else"))
                if a_ is not None and b_ is not None:
                    self.if_rhs[id(r)] = (a_, b_)

    def loop_name(self, n):
        if id(n) not in self.loops:
            self.loops[id(n)] = n.get("label") or ("loop#%d" % len(self.loops))
        return self.loops[id(n)]

    def describe(self, ev):
        n = ev[1]
        if n.get("k") in ("Call", "MethodCall"):
            return "call %s @%s" % ((n.get("def") or "?").split("::")[-1], n.get("sp"))
        if n.get("k") == "AssignOp":
            return "%s @%s" % (tast.render(n)[:60], n.get("sp"))
        return super().describe(ev)

    def check(self, st, where, node):
        d = st[0]
        mode = st[3]
        if mode is not None:
            # calls - increments = d + v with the live counter v
            if mode[1] and d >= 0:
                self.violate("%s:%s:%s:uncounted-loop" % (self.rule, self.fn, where),
                             "at %s the calls of %s made in the loop counted by a local counter have not been added to %s on this path (the counter is only brought up to date by a later `+= counter + c`); path: %s"
                             % (where, self.call_def, self.field, " -> ".join([t for t in self.cur_trail if t.startswith("call") or "+=" in t or "AddAssign" in t][-5:])), node, self.cur_trail)
                return ((0, None, st[2], None),)
            if mode[1]:
                self.nonliteral.append(node)
                return ((0, None, st[2], None),)
            # counter known to be 0: plain check
        if d != 0:
            what = ("%d call(s) of %s not counted in %s" % (d, self.call_def, self.field)) if d > 0 else \
                   ("%s incremented %d time(s) more than %s was called" % (self.field, -d, self.call_def))
            calls = [t for t in self.cur_trail if t.startswith("call") or "AddAssign" in t or "+=" in t]
            self.violate("%s:%s:%s:%+d" % (self.rule, self.fn, where, d),
                         "%s at %s; path: %s" % (what, where, " -> ".join(calls[-6:])), node, self.cur_trail)
        return ((0, None, st[2], st[3]),)

    def step(self, st, ev):
        kind, n = ev[0], ev[1]
        d, pend, memo, mode = st
        tv = self.tracked_var
        if kind == "node" and tv is not None:
            k_ = n.get("k")
            # the tracked loop counter: (re)initialised with a literal, incremented by a literal
            if k_ == "Let" and n["pat"].get("k") == "PBind" and n["pat"].get("id") == tv and n.get("init") is not None:
                k0 = mon.is_lit_int(n["init"] if n["init"].get("k") != "Cast" else n["init"]["e"])
                if k0 is not None and mode is None:
                    return ((clamp(d - k0), pend, memo, ("B", k0 > 0)),)
                if k0 is not None and mode is not None and not mode[1]:
                    return ((clamp(d - k0), pend, memo, ("B", k0 > 0)),)
                self.nonliteral.append(n)
                return (st,)
            if k_ in ("Assign", "AssignOp") and n["l"].get("k") == "Path" and n["l"].get("id") == tv:
                k0 = mon.is_lit_int(n["r"])
                if k_ == "AssignOp" and n.get("op") in ("Add", "AddAssign") and k0 is not None and mode is not None:
                    return ((clamp(d - k0), pend, memo, ("B", mode[1] or k0 > 0)),)
                if k_ == "Assign" and k0 is not None and (mode is None or not mode[1]):
                    return ((clamp(d - k0), pend, memo, ("B", k0 > 0)),)
                self.nonliteral.append(n)
                return (st,)
            if k_ == "AssignOp" and id(n) in self.tracked:
                self._incr_nodes.add(id(n))
                if mode is None:
                    self.nonliteral.append(n)
                    return (st,)
                return ((clamp(d - self.tracked[id(n)][1]), None, memo, None),)
        if kind in ("then", "else") and n.get("k") == "If":
            truth = kind == "then"
            if id(n) in self.if_rhs:
                pend = self.if_rhs[id(n)][0 if truth else 1]
            c = n["cond"]
            key = (tast.render(c), cond_ids(c)) if pure_cond(c) else None
            if key is not None and key in self.repeated:
                for (k2, t2) in memo:
                    if k2 == key and t2 != truth:
                        return ()      # the same condition already went the other way on this path
                memo = memo | {(key, truth)}
            return ((d, pend, memo, mode),)
        if kind == "node":
            k = n.get("k")
            if k in ("Assign", "AssignOp") and n["l"].get("k") == "Path" and n["l"].get("res") == "local":
                lid = n["l"]["id"]
                memo2 = frozenset(e for e in memo if lid not in e[0][1])
                if memo2 != memo:
                    memo = memo2
                    st = (d, pend, memo, mode)
            if k in ("MethodCall", "Call"):
                df = n.get("def")
                if df == self.call_def:
                    self._call_nodes.add(id(n))
                    return ((clamp(d + 1), pend, memo, mode),)
                if df in self.summaries and self.summaries[df]:
                    return ((clamp(d + self.summaries[df]), pend, memo, mode),)
            elif k == "AssignOp" and n["l"].get("k") == "Field" and (n["l"].get("fdef") or "") == self.field:
                self._incr_nodes.add(id(n))
                v = mon.is_lit_int(n["r"])
                if v is None and id(n["r"]) in self.if_rhs and pend is not None:
                    v = pend
                if n["op"] in ("Add", "AddAssign") and v is not None:
                    return ((clamp(d - v), None, memo, mode),)
                self.nonliteral.append(n)
                return (st,)
            elif k == "Assign" and n["l"].get("k") == "Field" and (n["l"].get("fdef") or "") == self.field:
                self.nonliteral.append(n)
        elif kind == "pre" and n.get("k") == "Loop":
            if mode is not None and id(n) in getattr(self, "counter_loops", ()):
                return (st,)
            return self.check(st, "entry of " + self.loop_name(n), n)
        elif kind == "latch":
            if mode is not None and id(n) in getattr(self, "counter_loops", ()):
                return (st,)
            return self.check(st, "one iteration of " + self.loop_name(n), n)
        elif kind == "return":
            return self.check(st, "return", n)
        elif kind == "fn_end":
            return self.check(st, "end", n)
        return (st,)


class SummaryMon(mon.Monitor):
    init = (0,)
    # states are plain ints here

    def __init__(self, call_def):
        super().__init__()
        self.call_def = call_def

    def step(self, st, ev):
        if ev[0] == "node" and ev[1].get("k") in ("MethodCall", "Call") and ev[1].get("def") == self.call_def:
            return (clamp(st + 1),)
        return (st,)


def summaries_for(f, cg, fn, call_def, rep, rule):
    """Net number of `call_def` calls made by crate-local callees of fn (single value per callee or inconclusive)."""
    out = {}
    trait_name = call_def
    for callee in cg.local_targets(fn):
        if "{closure" in callee or callee.startswith("ivp::IVP::"):
            # trait methods of the user's problem (default bodies included) are opaque by the
            # property's wording: evaluations made while differencing a Jacobian are excluded
            continue
        hits = cg.reaches_call(callee, lambda c, r, t: c == trait_name)
        if not hits:
            out[callee] = 0
            continue
        m = SummaryMon(call_def)
        flow, _ = mon.Runner(m).run_fn(f.body(callee))
        vals = set(flow.states())
        if len(vals) == 1:
            out[callee] = vals.pop()
            rep.ok(rule, "%s:%s:summary:%s" % (rule, fn, callee), "%s calls %s exactly %d time(s) on every path" % (callee, call_def, out[callee]))
        else:
            rep.inconc(rule, "%s:%s:summary:%s" % (rule, fn, callee), "%s calls %s a path-dependent number of times %s" % (callee, call_def, sorted(vals)))
            out[callee] = None
    return out


def count_rule(rep, f, cg, rule, call_def, field, floor_calls):
    total_calls = 0
    for mod, ty in SOLVERS:
        fn = "methods::%s::%s::solve" % (mod, ty)
        body = f.body(fn)
        rep.fn(fn)
        sums = summaries_for(f, cg, fn, call_def, rep, rule)
        m = CountMon(rule, fn, call_def, field, sums, body)
        flow, frame = mon.Runner(m).run_fn(body)
        ncalls = len(tast.calls(body["body"], call_def))
        total_calls += ncalls
        if m.nonliteral:
            rep.inconc(rule, "%s:%s:nonliteral" % (rule, fn), "%s is updated by a non-literal amount; counting cannot be decided" % field, m.nonliteral[0].get("sp"))
            continue
        for key, msg, node, trail in m.violations:
            rep.violation(rule, key, msg, node.get("sp") if isinstance(node, dict) else None)
        if not m.violations:
            rep.ok(rule, "%s:%s" % (rule, fn), "%d call site(s), %d increment site(s), balanced on every path" % (ncalls, len(m._incr_nodes)),
                   nontrivial=ncalls > 0)
        rep.sample(dict(rule=rule, fn=fn, call_sites=ncalls, increment_sites=len(m._incr_nodes),
                        callee_summaries={k: v for k, v in sums.items() if v}))
    if total_calls < floor_calls:
        rep.inconc(rule, rule + ":floor", "only %d %s call sites found in the six solve fns (expected >= %d): anchor drift" % (total_calls, call_def, floor_calls))
    return total_calls


STAT_MAP = {"nfev": "methods::Evals::ode", "njev": "methods::Evals::jac", "nlu": "methods::Evals::lu",
            "nstep": "methods::Steps::total", "naccpt": "methods::Steps::accepted", "nrejct": "methods::Steps::rejected"}


def stats_rules(rep, f):
    fn = "solve::solve_ivp::solve_ivp"
    body = f.body(fn)
    rep.fn(fn)
    lits = tast.find(body["body"], lambda x: x.get("k") == "Struct" and x.get("def") == "solve::solution::Solution")
    if len(lits) < 3:
        rep.inconc("R-MAP-STATS", "R-MAP-STATS:floor", "expected >= 3 Solution literals in solve_ivp, found %d" % len(lits))
        return
    mapped = zero = 0
    for j, s in enumerate(lits):
        fields = {x["name"]: x["e"] for x in s["fields"]}
        vals = {k: fields.get(k) for k in STAT_MAP}
        if all(v is not None and v.get("k") == "Lit" for v in vals.values()):
            zero += 1
            bad = [k for k, v in vals.items() if str(v.get("v")) != "0"]
            key = "R-ZERO-STATS:%s:literal%d" % (fn, zero)
            if bad:
                rep.violation("R-ZERO-STATS", key, "early-return Solution has non-zero literal counters %s" % bad, s.get("sp"))
            else:
                rep.ok("R-ZERO-STATS", key, "all six counters are literal 0")
        else:
            mapped += 1
            for k, want in STAT_MAP.items():
                v = vals[k]
                got = v.get("fdef") if v is not None and v.get("k") == "Field" else None
                key = "R-MAP-STATS:%s:%s" % (fn, k)
                if got == want:
                    rep.ok("R-MAP-STATS", key, "%s <- %s" % (k, want))
                else:
                    rep.violation("R-MAP-STATS", key, "Solution.%s is filled from %s, expected %s" % (k, got or tast.render(v), want), (v or s).get("sp"))
    if mapped < 1 or zero < 2:
        rep.inconc("R-MAP-STATS", "R-MAP-STATS:shape", "expected 1 mapped and 2 zero Solution literals, found %d / %d" % (mapped, zero))


def run(rep, tier):
    f = facts.load("default")
    cg = eff.CallGraph(f)
    rep.rule("R-CNT-ODE", "on every path of each X::solve, (#IVP::ode calls incl. callee summaries) - (sum of literal increments of Evals::ode) is 0 at every loop entry, around every loop cycle and at every return")
    rep.rule("R-CNT-JAC", "same for IVP::jac / Evals::jac")
    rep.rule("R-CNT-ACC", "Steps::accepted is incremented exactly once on every path from the main-loop head to the per-step SolOut callback and never on a cycle that does not reach it; total >= accepted per cycle")
    rep.rule("R-MAP-STATS", "the final Solution literal maps nfev/njev/nlu/nstep/naccpt/nrejct from evals.ode/jac/lu, steps.total/accepted/rejected")
    rep.rule("R-ZERO-STATS", "both early-return Solution literals have all six counters literal 0")
    n_ode = count_rule(rep, f, cg, "R-CNT-ODE", ODE, "methods::Evals::ode", 40)
    n_jac = count_rule(rep, f, cg, "R-CNT-JAC", JAC, "methods::Evals::jac", 5)
    acc_rule(rep, f)
    stats_rules(rep, f)
    rep.extra["call_sites"] = dict(ode=n_ode, jac=n_jac)
    rep.rule("R-ZERO-SPAN", "solve_ivp answers a zero-length run itself: the shortcut's condition holds for x0 == xend at every magnitude of the end points, 0 included (numeric evaluation of the symbolic condition)")
    import obs as _obs
    _obs.r_zero_span(rep, f)
    rep.explanation = ("All-paths structural check: a monitor automaton over the structured control flow of each solver's solve() pairs every "
                       "IVP::ode / IVP::jac call with a counter increment (per path, per loop cycle), ties Steps::accepted to the per-step callback, and "
                       "checks the statistics copy in solve_ivp. Decides counting for every input; nothing numerical is involved. "
                       "Calls made inside user IVP::jac implementations are out of scope by the property's wording.")
