"""C02 Each method attains its advertised order."""
import facts
import aff
import radau

LEVEL = "proof"


def run(rep, tier):
    f = facts.load("default")
    ctx = aff.Ctx(f)
    rep.rule("R-AFF-TABLEAU", "the stage table (abscissae, stage weights, update weights) is extracted from X::solve's main loop by exact affine-form interpretation of the accepted path")
    rep.rule("R-AFF-ORDER", "sum_i b_i Phi_i(t) = 1/gamma(t) for every rooted tree t with |t| <= p, and c_i = sum_j a_ij; some condition of order p+1 fails")
    rep.rule("R-AFF-EST", "each vector divided by the tolerance scale in the error norm is h*sum e_i F_i with sum e_i Phi_i(t) = 0 for |t| <= q^ and != 0 for some |t| = q^+1")
    rep.rule("R-AFF-FSAL", "at every loop head the derivative slot holds f(x, y) (accepted, rejected, ModifiedSolution, XOut paths)")
    for m in aff.EXPLICIT:
        t = aff.r_tableau(rep, ctx, m)
        if t is None:
            continue
        aff.r_order(rep, ctx, m, t)
        aff.r_est(rep, ctx, m, t)
        aff.r_fsal(rep, ctx, m)
    rep.rule("R-RADAU-CONST", "the constants RADAU::solve applies satisfy the Radau IIA(5) identities (nodes = roots of 10c^2-8c+1 and 1, TI*T = I, T*Lambda*TI = A^-1, estimator weights) to 1e-13 in 60-digit arithmetic")
    radau.r_radau_const(rep, f)
    rep.rule("R-BDF-PREDICT", "BDF: the predictor sum_{j<=k} D_j equals p(x + h) for every polynomial p of degree <= k through the stored points")
    rep.rule("R-BDF-CORRECT", "BDF: the Newton residual c*f - psi - delta vanishes at a polynomial solution of degree <= k (the corrector formula has order k), the accumulated correction enters with coefficient -1 and the Newton increment moves iterate and correction alike")
    rep.rule("R-BDF-UPDATE", "BDF: after an accepted step the difference table holds nabla^j y_(n+1), j = 0..k+2, identically in the past values")
    rep.rule("R-BDF-COEFF", "BDF: gamma_k is the k-th harmonic number and alpha_k + error_const_k = gamma_k + 1/(k+1) (both tables built from the same kappa)")
    rep.rule("R-BDF-RESCALE", "BDF: change_d(D, k, theta) maps the backward differences of a polynomial of degree <= k for spacing h to those for spacing theta*h (identity in theta, h and the coefficients; orders 1..5; exact evaluation with concrete control)")
    import bdfx
    bdfx.r_bdf_rescale(rep, f)
    bdfx.r_bdf_core(rep, f)
    rep.explanation = ("Proof-level for the explicit methods: the Butcher tableau each stepper actually applies is extracted from the type-checked "
                       "program (buffers tracked flow-sensitively, constants read exactly as written) and every Runge-Kutta order condition up to the "
                       "advertised order is discharged in exact rational arithmetic (DOP853's 30-digit decimal literals: |residual| <= 1e-13). "
                       "Radau: the applied constants are those of Radau IIA(5), whose stability function is the (2,3) Pade approximant. Not decided: convergence of Radau's simplified Newton iteration; measured step counts.")
    rep.trusted_base = ["rustc nightly HIR/typeck", "driver/ivp-facts", "engine/symx.py affine interpreter", "engine/trees.py (B-series order theory, HNW II.2)"]
    rep.assumptions = ["the accepted/Continue path with dense output on is the path solve_ivp drives (checked by C12 rules)",
                       "f64 rounding of the written constants is below the 1e-13 acceptance threshold"]
