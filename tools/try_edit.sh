#!/bin/bash
# usage: tools/try_edit.sh "<props comma>" <file relative to repo> '<python re.sub pattern>' '<replacement>'  : apply an edit to a scratch copy, run checks
set -e
S=$(mktemp -d /tmp/ivp-edit-XXXX); mkdir -p $S/repo
git -C ${IVP_REPO:-/repo} archive HEAD | tar -x -C $S/repo
python3 - "$S/repo/$2" "$3" "$4" <<'PY'
import re,sys
p,pat,rep=sys.argv[1:4]
s=open(p).read()
n=len(re.findall(pat,s,re.S))
s2=re.sub(pat,rep,s,count=1,flags=re.S)
print("matches:",n,"changed:",s!=s2)
open(p,'w').write(s2)
PY
(cd $S/repo && CARGO_NET_OFFLINE=true CARGO_TARGET_DIR=/verif/.cache/target-edit cargo check --offline --lib 2>&1 | grep -E "^error" | head -3)
for p in ${1//,/ }; do IVP_REPO=$S/repo IVP_VERIF_CACHE=/verif/.cache/corpus-edit IVP_EVIDENCE_DIR=$S/ev python3 /verif/rules/run.py $p quick | grep -E "^(VIOLATION|  rule=|  at |INCONCLUSIVE|SUMMARY)" | cut -c1-400; done
rm -rf $S
