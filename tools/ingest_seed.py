#!/usr/bin/env python3
"""Collect a confirmed seeded change from a scratch worktree into /verif/seeded/<name>/.
usage: tools/ingest_seed.py <worktree> <name> <property> <change> <needs>
Requires <worktree>/confirm.txt written by tools/confirm_seed.sh showing: suite passes, demo fails with / passes without."""
import json
import os
import re
import shutil
import subprocess
import sys

wt, name, prop, change, needs = sys.argv[1:6]
conf = open(os.path.join(wt, "confirm.txt")).read().strip().splitlines()[-1]
m = re.search(r"SUITE\(with patch\): (\d+) passed (\d+) failed \| DEMO with patch: (.*?) \| DEMO without: (.*)$", conf)
if not m:
    sys.exit("no verdict in confirm.txt: " + conf)
sp, sf, dw, dwo = m.groups()
ok = int(sp) >= 45 and int(sf) == 0 and ("FAILED" in dw or "timeout" in dw) and "test result: ok" in dwo
print(name, "CONFIRMED" if ok else "NOT CONFIRMED", "|", conf)
if not ok:
    sys.exit(1)
dst = os.path.join("/verif/seeded", name)
os.makedirs(dst, exist_ok=True)
demo = "seed_demo.rs" if os.path.exists(os.path.join(wt, "seed", "seed_demo.rs")) else "seed_demo.py"
for f in ("patch.diff", demo, "NOTES.md"):
    shutil.copy(os.path.join(wt, "seed", f), os.path.join(dst, f))
base = subprocess.run(["git", "-C", "/repo", "rev-parse", "--short", "HEAD"], capture_output=True, text=True).stdout.strip()
meta = dict(property=prop, change=change, needs_to_manifest=needs,
            confirmed=dict(suite_with_patch="%s passed %s failed (42 tests + 3 doctests) via tools/confirm_seed.sh" % (sp, sf),
                           demo_with_patch="FAILED" if "FAILED" in dw else dw, demo_without_patch="ok"),
            commands=["tools/confirm_seed_py.sh <scratch worktree> (python demo against the built extension)" if demo.endswith(".py") else "tools/confirm_seed.sh <scratch worktree> (git apply patch; cargo test --offline; cargo test --offline --test seed_demo; git apply -R; cargo test --offline --test seed_demo)",
                      "tools/corpus.py --only %s" % name.split("-")[0]],
            source="independent sub-agent given only the property text and a scratch worktree", base_commit=base)
json.dump(meta, open(os.path.join(dst, "meta.json"), "w"), indent=1)
