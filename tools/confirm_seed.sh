#!/bin/bash
# usage: tools/confirm_seed.sh <worktree> ; prints a one-line verdict
W="$1"; cd "$W" || exit 3
export CARGO_NET_OFFLINE=true
rm -f tests/seed_demo.rs
git checkout -q -- src 2>/dev/null
git apply seed/patch.diff || { echo "PATCH-FAIL"; exit 1; }
suite=$(cargo test --offline --no-fail-fast 2>&1 | grep -E "^test result" | awk '{p+=$4; f+=$6} END{print p" passed "f" failed"}')
cp seed/seed_demo.rs tests/seed_demo.rs
with=$(timeout 300 cargo test --offline --test seed_demo 2>&1 | grep -E "^test result" | head -1)
git apply -R seed/patch.diff
without=$(timeout 300 cargo test --offline --test seed_demo 2>&1 | grep -E "^test result" | head -1)
rm -f tests/seed_demo.rs
echo "SUITE(with patch): $suite | DEMO with patch: ${with:-none/timeout} | DEMO without: ${without:-none}"
