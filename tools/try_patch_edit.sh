#!/bin/bash
# usage: tools/try_patch_edit.sh "<props comma>" <patch> <file relative to repo> '<python re.sub pattern>' '<replacement>' : apply a patch, then an edit, to a scratch copy of /repo HEAD; run the quick checks there
set -e
S=$(mktemp -d /tmp/ivp-pe-XXXX); mkdir -p $S/repo
git -C ${IVP_REPO:-/repo} archive HEAD | tar -x -C $S/repo
(cd $S/repo && patch -p1 -s < "$2") || { echo "patch does not apply"; rm -rf $S; exit 3; }
python3 - "$S/repo/$3" "$4" "$5" <<'P'
import re, sys
p, pat, rep = sys.argv[1:4]
s = open(p).read()
n = len(re.findall(pat, s))
s2 = re.sub(pat, rep, s, count=1)
print("matches:", n, "changed:", s2 != s)
open(p, "w").write(s2)
P
(cd $S/repo && CARGO_NET_OFFLINE=true CARGO_TARGET_DIR=/verif/.cache/target-edit cargo check --offline --lib 2>&1 | grep -E "^error" | head -3)
for p in ${1//,/ }; do IVP_REPO=$S/repo IVP_VERIF_CACHE=/verif/.cache/corpus-edit IVP_EVIDENCE_DIR=$S/ev python3 /verif/rules/run.py $p quick | grep -E "^(VIOLATION|  rule=|  at |INCONCLUSIVE|SUMMARY)" | cut -c1-400; done
rm -rf $S
