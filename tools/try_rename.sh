#!/bin/bash
# usage: tools/try_rename.sh <old identifier> <new identifier> [props]: rename an identifier everywhere in a scratch copy, run checks
S=$(mktemp -d /tmp/ivp-ren-XXXX); mkdir -p $S/repo
git -C ${IVP_REPO:-/repo} archive HEAD | tar -x -C $S/repo
grep -rlw "$1" $S/repo/src | xargs sed -i "s/\b$1\b/$2/g"
(cd $S/repo && CARGO_NET_OFFLINE=true CARGO_TARGET_DIR=/verif/.cache/target-edit cargo check --offline --lib 2>&1 | grep -E "^error" | head -3)
PROPS=${3:-C01,C02,C03,C04,C05,C06,C07,C08,C09,C10,C11,C12,C13,C14,C15,C16,C17,C18,C19,C20}
for p in ${PROPS//,/ }; do o=$(IVP_REPO=$S/repo IVP_VERIF_CACHE=/verif/.cache/corpus-edit IVP_EVIDENCE_DIR=$S/ev python3 /verif/rules/run.py $p quick 2>&1); rc=$?; [ $rc != 0 ] && { echo "$p rc=$rc"; echo "$o" | grep -E "^(  rule=|  at |INCONCLUSIVE|Traceback)" | cut -c1-260 | head -4; }; done
echo "done $1 -> $2"
rm -rf $S
