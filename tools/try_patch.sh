#!/bin/bash
# usage: tools/try_patch.sh <patch.diff> [props...]  -- applies to /repo, runs quick checks, reverts
P="$1"; shift
PROPS="${@:-$(python3 -c "import json;print(' '.join(c['property_id'] for c in json.load(open('/verif/MANIFEST.json'))['checks']))")}"
cd /repo && git apply "$P" || { echo "patch does not apply"; exit 3; }
cd /verif
for p in $PROPS; do
  out=$(./check $p quick 2>&1); rc=$?
  keys=$(echo "$out" | grep -E "^  rule=" | sed 's/  rule=[^ ]* key=//' | head -3 | tr '\n' ' ')
  inc=$(echo "$out" | grep -c "^INCONCLUSIVE")
  echo "$p rc=$rc inconclusive=$inc ${keys:0:260}"
done
cd /repo && git checkout -- . 
