#!/bin/bash
# usage: tools/try_patch.sh "<props comma>" <patch.diff>  : apply a patch to a scratch copy of /repo HEAD, run the quick checks there
set -e
S=$(mktemp -d /tmp/ivp-patch-XXXX); mkdir -p $S/repo
git -C ${IVP_REPO:-/repo} archive HEAD | tar -x -C $S/repo
(cd $S/repo && patch -p1 -s < "$2") || { echo "patch does not apply"; rm -rf $S; exit 3; }
(cd $S/repo && CARGO_NET_OFFLINE=true CARGO_TARGET_DIR=/verif/.cache/target-edit cargo check --offline --lib 2>&1 | grep -E "^error" | head -3)
for p in ${1//,/ }; do IVP_REPO=$S/repo IVP_VERIF_CACHE=/verif/.cache/corpus-edit IVP_EVIDENCE_DIR=$S/ev python3 /verif/rules/run.py $p quick | grep -E "^(VIOLATION|  rule=|  at |INCONCLUSIVE|SUMMARY)" | cut -c1-400; done
rm -rf $S
