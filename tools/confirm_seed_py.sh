#!/bin/bash
# usage: tools/confirm_seed_py.sh <worktree> ; confirms a seed of the Python binding (demo = seed/seed_demo.py run against the built extension)
W="$1"; cd "$W" || exit 3
export CARGO_NET_OFFLINE=true
rm -f tests/seed_demo.rs
git checkout -q -- src 2>/dev/null
git apply seed/patch.diff || { echo "PATCH-FAIL"; exit 1; }
suite=$(cargo test --offline --no-fail-fast 2>&1 | grep -E "^test result" | awk '{p+=$4; f+=$6} END{print p" passed "f" failed"}')
mkdir -p pymod
build(){ cargo build --offline --features python >/dev/null 2>&1 && cp target/debug/libivp.so pymod/ivp.so; }
build || { echo "BUILD-FAIL(with patch)"; exit 1; }
cp seed/seed_demo.py pymod/seed_demo.py
(cd pymod && timeout 300 python3-vt seed_demo.py >/dev/null 2>&1); with=$?
git apply -R seed/patch.diff
build || { echo "BUILD-FAIL(original)"; exit 1; }
(cd pymod && timeout 300 python3-vt seed_demo.py >/dev/null 2>&1); without=$?
w="test result: ok."; [ $with -ne 0 ] && w="test result: FAILED. (python exit $with)"
wo="test result: FAILED. (python exit $without)"; [ $without -eq 0 ] && wo="test result: ok."
echo "SUITE(with patch): $suite | DEMO with patch: $w | DEMO without: $wo"
