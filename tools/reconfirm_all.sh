#!/bin/bash
# usage: tools/reconfirm_all.sh [jobs]   re-confirms every stored seed against /repo HEAD in scratch worktrees under /tmp (removed afterwards)
J=${1:-6}
OUT=/verif/.cache/reconfirm.log; : > $OUT
ls -d /verif/seeded/S* | sort > /tmp/reconf.list
split -n l/$J /tmp/reconf.list /tmp/reconf.part.
for part in /tmp/reconf.part.*; do
  (
    W=/tmp/reconf-$(basename $part)
    git -C /repo worktree add --detach $W HEAD -q
    while read d; do
      rm -rf $W/seed; mkdir $W/seed; cp $d/patch.diff $d/NOTES.md $W/seed/ 2>/dev/null
      if [ -f $d/seed_demo.py ]; then cp $d/seed_demo.py $W/seed/; v=$(/verif/tools/confirm_seed_py.sh $W | tail -1); else cp $d/seed_demo.rs $W/seed/; v=$(/verif/tools/confirm_seed.sh $W | tail -1); fi
      echo "$(basename $d) | $v" >> $OUT
    done < $part
    git -C /repo worktree remove --force $W
  ) &
done
wait
rm -f /tmp/reconf.list /tmp/reconf.part.*
grep -v "45 passed 0 failed | DEMO with patch: test result: FAILED.*| DEMO without: test result: ok" $OUT | cut -c1-200
echo "RECONFIRM done: $(wc -l < $OUT) seeds"
