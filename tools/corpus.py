#!/usr/bin/env python3
"""Self-test corpus: apply every seeded mutant / benign variant to a scratch copy of /repo (outside /repo and /verif),
run the checks on the copy in parallel and compare with the expectation:
  seeded/<id>   -> the check of meta.property must report a violation (exit 1)
  benign/<id>   -> every check must stay free of VIOLATION lines (exit 0 or 2)
usage: tools/corpus.py [--props C01,C02] [--only S01] [--jobs 8]
Prints one line per patch and a JSON summary; exit 0 iff all expectations hold."""
import argparse
import glob
import json
import os
import shutil
import subprocess
import sys
import tempfile
from concurrent.futures import ThreadPoolExecutor

VERIF = os.path.dirname(os.path.dirname(os.path.abspath(__file__)))
REPO = os.environ.get("IVP_REPO", "/repo")
ALL = [c["property_id"] for c in json.load(open(os.path.join(VERIF, "MANIFEST.json")))["checks"]]


import queue
SLOTS = queue.Queue()


def run_patch(args):
    """one patch on one worker cache directory; directories are shared between concurrent corpus runs (the thorough tier of
    several properties, a manual run), so a slot is owned through an exclusive file lock, not just within this process"""
    import fcntl
    kind, name, patch, props, _ = args
    token = SLOTS.get()
    try:
        k = 0
        while True:
            d = os.path.join(VERIF, ".cache", "corpus-%d" % k)
            os.makedirs(d, exist_ok=True)
            fh = open(os.path.join(d, ".lock"), "w")
            try:
                fcntl.flock(fh, fcntl.LOCK_EX | fcntl.LOCK_NB)
            except OSError:
                fh.close()
                k = (k + 1) % 48
                if k == 0:
                    import time
                    time.sleep(0.5)
                continue
            try:
                return run_patch_in(kind, name, patch, props, k)
            finally:
                fcntl.flock(fh, fcntl.LOCK_UN)
                fh.close()
    finally:
        SLOTS.put(token)


def run_patch_in(kind, name, patch, props, worker):
    scratch = tempfile.mkdtemp(prefix="ivp-corpus-")
    try:
        rp = os.path.join(scratch, "repo")
        os.makedirs(rp)
        if os.environ.get("CORPUS_BASE") == "head":
            # base = committed HEAD of the repository (used while the working tree is temporarily dirty)
            subprocess.run("git -C %s archive HEAD | tar -x -C %s" % (REPO, rp), shell=True, check=True)
        else:
          for item in ("src", "Cargo.toml", "Cargo.lock", "README.md", "examples", "tests", "build.rs"):
            sp = os.path.join(REPO, item)
            if os.path.isdir(sp):
                shutil.copytree(sp, os.path.join(rp, item))
            elif os.path.exists(sp):
                shutil.copy(sp, os.path.join(rp, item))
        subprocess.run(["git", "init", "-q"], cwd=rp)
        r = subprocess.run(["git", "apply", patch], cwd=rp, capture_output=True, text=True)
        if r.returncode != 0:
            return dict(kind=kind, name=name, status="skipped", why="patch does not apply to the current tree")
        env = dict(os.environ, IVP_REPO=rp, IVP_VERIF_CACHE=os.path.join(VERIF, ".cache", "corpus-%d" % worker),
                   IVP_EVIDENCE_DIR=os.path.join(scratch, "evidence"), CARGO_NET_OFFLINE="true")
        os.makedirs(env["IVP_EVIDENCE_DIR"], exist_ok=True)
        res = {}
        for p in props:
            rr = subprocess.run(["python3", os.path.join(VERIF, "rules", "run.py"), p, "quick"], cwd=VERIF, env=env, capture_output=True, text=True)
            keys = [l.split("key=")[1].strip() for l in rr.stdout.splitlines() if l.startswith("  rule=")]
            res[p] = dict(rc=rr.returncode, keys=keys[:3])
            if os.environ.get("CORPUS_VERBOSE") and rr.returncode != 0:
                res[p]["lines"] = [l[:700] for l in rr.stdout.splitlines() if l.startswith(("  rule=", "  at ", "INCONCLUSIVE"))][:12]
            if rr.returncode not in (0, 1, 2):
                res[p]["error"] = (rr.stderr or rr.stdout)[-400:]
        return dict(kind=kind, name=name, status="ran", results=res)
    finally:
        shutil.rmtree(scratch, ignore_errors=True)


def main():
    ap = argparse.ArgumentParser()
    ap.add_argument("--props", default="")
    ap.add_argument("--only", default="")
    ap.add_argument("--jobs", type=int, default=8)
    ap.add_argument("--kinds", default="seeded,benign")
    ap.add_argument("--own-seeds", action="store_true", help="only seeds whose property is in --props")
    a = ap.parse_args()
    props = [p for p in a.props.split(",") if p] or ALL
    jobs = []
    if "seeded" in a.kinds:
        for d in sorted(glob.glob(os.path.join(VERIF, "seeded", "S*"))):
            name = os.path.basename(d)
            if a.only and not any(o in name for o in a.only.split(",")):
                continue
            meta = json.load(open(os.path.join(d, "meta.json")))
            want = meta["property"]
            if a.own_seeds and want not in props:
                continue
            # a mutant is run against its own property's check (and against the requested ones)
            ps = sorted(set([want] + (props if a.props else [])) & set(ALL))
            jobs.append(("seeded", name, os.path.join(d, "patch.diff"), ps, want))
    if "benign" in a.kinds:
        for pth in sorted(glob.glob(os.path.join(os.environ.get("IVP_BENIGN_DIR") or os.path.join(VERIF, "selftest", "benign"), "*.patch"))):
            name = os.path.basename(pth)[:-6]
            if a.only and not any(o in name for o in a.only.split(",")):
                continue
            jobs.append(("benign", name, pth, props, None))
    out = []
    ok = True
    for k in range(a.jobs):
        SLOTS.put(k)
    with ThreadPoolExecutor(max_workers=a.jobs) as ex:
        futs = []
        for j, (kind, name, patch, ps, want) in enumerate(jobs):
            futs.append((kind, name, want, ex.submit(run_patch, (kind, name, patch, ps, j % a.jobs))))
        for kind, name, want, fu in futs:
            r = fu.result()
            if r["status"] == "skipped":
                print("%-8s %-40s SKIPPED (%s)" % (kind, name, r["why"]))
                out.append(r)
                continue
            res = r["results"]
            if kind == "seeded":
                good = res.get(want, {}).get("rc") == 1
                caught = [p for p, v in res.items() if v["rc"] == 1]
                verdict = "CAUGHT" if good else "MISSED"
                try:
                    meta_ = json.load(open(os.path.join(VERIF, "seeded", name, "meta.json")))
                except Exception:
                    meta_ = {}
                if meta_.get("detect") is False:
                    # a documented limit of the technique (DESIGN.md): the seed stays in the corpus so that a later rule
                    # that does catch it is noticed; it does not count as a failure of the self-test
                    verdict = "CAUGHT (documented as out of reach: update meta.json)" if good else "NOT-DETECTED (documented limit)"
                    good = True
                print("%-8s %-40s %s  (expected violation in %s; violations in %s) %s" % (kind, name, verdict, want, caught or "-", res.get(want, {}).get("keys", [])[:1]))
            else:
                bad = [p for p, v in res.items() if v["rc"] == 1]
                inc = [p for p, v in res.items() if v["rc"] == 2]
                # a check that cannot decide a behaviour-preserving variant exits non-zero as well: that counts against it,
                # unless the variant is listed as a documented limit of the technique (INCONCLUSIVE only, never a violation)
                try:
                    limits = json.load(open(os.path.join(VERIF, "selftest", "benign", "KNOWN-LIMITS.json")))
                except Exception:
                    limits = {}
                lim = limits.get(name[:-6] if name.endswith(".patch") else name) or limits.get(name)
                if lim and not bad and set(inc) <= set(lim.get("inconclusive_in", [])):
                    print("%-8s %-40s SILENT, INCONCLUSIVE in %s (documented limit)" % (kind, name, inc))
                    inc = []
                    documented = True
                else:
                    documented = False
                good = not bad and not inc
                if documented:
                    r["ok"] = True
                    out.append(r)
                    continue
                print("%-8s %-40s %s%s" % (kind, name, "SILENT" if not bad else "FALSE-ALARM in %s" % bad, (" INCONCLUSIVE in %s" % inc) if inc else ""))
            for p_, v_ in res.items():
                for l in v_.get("lines", []):
                    print("      [%s] %s" % (p_, l))
            r["ok"] = good
            ok = ok and good
            out.append(r)
    summary = dict(patches=len(out), ok=sum(1 for r in out if r.get("ok")), skipped=sum(1 for r in out if r["status"] == "skipped"),
                   failed=[r["name"] for r in out if r["status"] == "ran" and not r.get("ok")])
    # remember the per-patch verdicts (merged over partial runs) for tools/gen_tables.py
    if not os.environ.get("IVP_THOROUGH_CHILD"):
        lp = os.path.join(VERIF, "selftest", "last_corpus.json")
        try:
            last = json.load(open(lp))
        except Exception:
            last = {}
        for r in out:
            if r["status"] == "ran":
                last.setdefault(r["name"], {}).update({p: dict(rc=v["rc"], keys=v["keys"][:1]) for p, v in r["results"].items()})
        json.dump(last, open(lp, "w"), indent=0, sort_keys=True)
    print("CORPUS " + json.dumps(summary))
    return 0 if ok else 1


if __name__ == "__main__":
    sys.exit(main())
