#!/usr/bin/env python3
"""Print the brief for an independent seeding agent: property text + scratch worktree, nothing about /verif.
usage: tools/seed_prompt.py <Cxx> <worktree> <hint text>"""
import json
import sys

pid, wt, hint = sys.argv[1], sys.argv[2], sys.argv[3]
props = {}
for l in open("/verif/properties.jsonl"):
    d = json.loads(l)
    props[d["id"]] = d
p = props[pid]
print(f"""You are working ONLY inside {wt}, a scratch git worktree of the Rust crate `ivp` (a pure-Rust ODE initial-value-problem solver library: RK4, RK23, DOPRI5, DOP853, Radau IIA, BDF, dense output, events; high-level entry `solve_ivp`). Do not read or touch /repo or /verif or any other directory. Build and test offline only: always prefix cargo with `CARGO_NET_OFFLINE=true` and pass `--offline`. The existing test suite (`CARGO_NET_OFFLINE=true cargo test --offline`, 42 tests + 3 doctests) passes on this tree.

Task: produce ONE small, realistic change to the library source (under src/) that BREAKS the following property while the crate still compiles and the existing test suite still passes unchanged:

---
{pid}: {p['title']}

{p['statement']}

Quantifier: {p['quantifier']['text'] if isinstance(p['quantifier'], dict) else p['quantifier']}
---

Requirements for the change:
- It must be the kind of mistake a developer could plausibly make (a slip while refactoring, optimising or porting), NOT something ordinary use would expose at once: every existing test must still pass. Prefer a change that needs something specific to manifest. {hint}
- One to ten changed lines. No new public API, no test edits, no cfg tricks, no changes to Cargo.toml.
- The crate must compile and `CARGO_NET_OFFLINE=true cargo test --offline` must still pass with your change.
- Provide a demonstration: a new integration test file `tests/seed_demo.rs` that FAILS with your change applied and PASSES on the original tree (check by saving `git diff -- src > /tmp/my.patch`-style into your seed/ directory and using `git apply -R` / `git apply` on it; do NOT use `git stash`: the stash is shared between worktrees), using only the public API (see src/prelude.rs, src/lib.rs, examples/ and tests/ for how it is used). Verify both directions yourself.

Deliverables (write these files, they are what I will collect):
- {wt}/seed/patch.diff  : output of `git diff -- src` for your change (source change only, not the demo)
- {wt}/seed/seed_demo.rs : the demonstration test
- {wt}/seed/NOTES.md    : 5-10 lines: what you changed, why it breaks the property, what is needed for it to manifest, exact commands you ran and their outcome.
Leave the worktree with your source change APPLIED. Keep your final answer short (3-5 lines).""")
