#!/usr/bin/env python3
"""Regenerate the generated sections of DESIGN.md (between <!-- BEGIN GENERATED:x --> / <!-- END GENERATED:x -->):
rules   : rule catalogue per property, from evidence/Cxx.json (what the last run of each check actually enumerated)
seeds   : seeded-change matrix from seeded/*/meta.json and the last corpus run (selftest/last_corpus.json)
benign  : behaviour-preserving corpus
findings: known_findings.json"""
import glob
import json
import os
import re

V = os.path.dirname(os.path.dirname(os.path.abspath(__file__)))


def rules():
    out = []
    for f in sorted(glob.glob(os.path.join(V, "evidence", "C*.json"))):
        e = json.load(open(f))
        c = e["coverage"]
        out.append("**%s** — level `%s`, %d obligations (%d non-trivial instances), %d function(s) analysed, %.1f s\n" % (
            e["property_id"], e["level"], c["obligations"], c["distinct_nontrivial"], len(c["functions_analysed"]), e["wall_s"]))
        for r, t in c["rules"].items():
            out.append("* `%s` — %s" % (r, t))
        out.append("")
    return "\n".join(out)


def corpus():
    p = os.path.join(V, "selftest", "last_corpus.json")
    return json.load(open(p)) if os.path.exists(p) else {}


def seeds():
    res = corpus()
    out = ["| id | property | change | needs to manifest | reported by (rule instance) | also flagged by |", "|---|---|---|---|---|---|"]
    for d in sorted(glob.glob(os.path.join(V, "seeded", "S*"))):
        name = os.path.basename(d)
        m = json.load(open(os.path.join(d, "meta.json")))
        r = res.get(name, {})
        own = r.get(m["property"], {})
        key = (own.get("keys") or ["?"])[0] if own.get("rc") == 1 else ("**MISSED**" if own else "not run")
        if m.get("detect") is False and own.get("rc") != 1:
            key = "not detected - documented limit"
        others = sorted(p for p, v in r.items() if v.get("rc") == 1 and p != m["property"])
        out.append("| %s | %s | %s | %s | `%s` | %s |" % (name.split("-")[0], m["property"], m["change"].replace("|", "\\|"), m["needs_to_manifest"].replace("|", "\\|"), key, ", ".join(others) or "–"))
    return "\n".join(out)


def benign():
    res = corpus()
    out = ["| variant | what it rewrites | result over all 20 checks |", "|---|---|---|"]
    for p in sorted(glob.glob(os.path.join(V, "selftest", "benign", "*.patch"))):
        name = os.path.basename(p)[:-6]
        r = res.get(name, {})
        bad = sorted(k for k, v in r.items() if v.get("rc") == 1)
        inc = sorted(k for k, v in r.items() if v.get("rc") == 2)
        files = sorted(set(re.findall(r"^\+\+\+ b/(\S+)", open(p).read(), re.M)))
        verdict = ("**false alarm in %s**" % bad) if bad else ("silent" + (" (inconclusive: %s)" % ", ".join(inc) if inc else "")) if r else "not run"
        out.append("| %s | %s | %s |" % (name, ", ".join(f.replace("src/", "") for f in files), verdict))
    return "\n".join(out)


def findings():
    k = json.load(open(os.path.join(V, "known_findings.json")))
    out = ["| property | rule instance (key) | status | what failed / fix commit |", "|---|---|---|---|"]
    for e in k["findings"]:
        out.append("| %s | `%s` | %s | %s |" % (e["property"], e["key"], e["status"], (e.get("line") or e.get("what") or "").replace("|", "\\|")))
    return "\n".join(out)


def main():
    p = os.path.join(V, "DESIGN.md")
    s = open(p).read()
    for name, fn in (("rules", rules), ("seeds", seeds), ("benign", benign), ("findings", findings)):
        b, e = "<!-- BEGIN GENERATED:%s -->" % name, "<!-- END GENERATED:%s -->" % name
        if b in s and e in s:
            i, j = s.index(b) + len(b), s.index(e)
            s = s[:i] + "\n" + fn() + "\n" + s[j:]
    open(p, "w").write(s)


if __name__ == "__main__":
    main()
