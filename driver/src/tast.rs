// Typed, name-resolved syntax tree ("TAST") of every body, from HIR + typeck results,
// plus item tables.
use crate::json::J;
use rustc_ast::ast::LitKind;
use rustc_hir as hir;
use rustc_hir::def::{DefKind, Res};
use rustc_hir::def_id::{DefId, LocalDefId};
use rustc_hir::{ExprKind, PatKind, QPath, StmtKind};
use rustc_middle::ty::{self, Ty, TyCtxt, TypeckResults};
use rustc_span::Span;

pub fn source_files(tcx: TyCtxt<'_>) -> J {
    let sm = tcx.sess.source_map();
    let mut v = Vec::new();
    for sf in sm.files().iter() {
        if sf.cnum != rustc_span::def_id::LOCAL_CRATE {
            continue;
        }
        let name = format!("{}", sf.name.prefer_local_unconditionally());
        let mut o = J::obj();
        o.set("name", J::s(&name));
        o.set("hash", J::s(&format!("{}", sf.src_hash)));
        v.push(o);
    }
    J::Arr(v)
}

fn span_str(tcx: TyCtxt<'_>, sp: Span) -> String {
    let sm = tcx.sess.source_map();
    // location of the outermost macro call site for expanded code, so that messages
    // point into the crate's own files
    let sp0 = sp.source_callsite();
    let lo = sm.lookup_char_pos(sp0.lo());
    format!(
        "{}:{}:{}",
        lo.file.name.prefer_local_unconditionally(),
        lo.line,
        lo.col.0 + 1
    )
}

fn hid(id: hir::HirId) -> String {
    format!("{}.{}", id.owner.def_id.local_def_index.as_u32(), id.local_id.as_u32())
}

struct Cx<'tcx> {
    tcx: TyCtxt<'tcx>,
    tr: &'tcx TypeckResults<'tcx>,
}

fn def_str(tcx: TyCtxt<'_>, d: DefId) -> String {
    tcx.def_path_str(d)
}

fn defkind_str(tcx: TyCtxt<'_>, d: DefId) -> String {
    format!("{:?}", tcx.def_kind(d)).split(|c| c == ' ' || c == '{' || c == '(').next().unwrap_or("").to_string()
}

impl<'tcx> Cx<'tcx> {
    fn ty_s(&self, t: Ty<'tcx>) -> String {
        format!("{}", t)
    }

    fn res(&self, r: Res, o: &mut J) {
        match r {
            Res::Local(id) => {
                o.set("res", J::s("local"));
                o.set("id", J::s(&hid(id)));
                o.set("name", J::s(self.tcx.hir_name(id).as_str()));
            }
            Res::Def(_kind, d) => {
                o.set("res", J::s("def"));
                o.set("dk", J::s(&defkind_str(self.tcx, d)));
                o.set("def", J::s(&def_str(self.tcx, d)));
                // for constructors, also name the variant / struct they construct
                if let DefKind::Ctor(..) = self.tcx.def_kind(d) {
                    let p = self.tcx.parent(d);
                    o.set("ctor_of", J::s(&def_str(self.tcx, p)));
                }
            }
            Res::SelfCtor(d) => {
                o.set("res", J::s("selfctor"));
                o.set("def", J::s(&def_str(self.tcx, d)));
            }
            Res::SelfTyAlias { alias_to, .. } => {
                o.set("res", J::s("selfty"));
                o.set("def", J::s(&def_str(self.tcx, alias_to)));
            }
            Res::SelfTyParam { trait_ } => {
                o.set("res", J::s("selfty"));
                o.set("def", J::s(&def_str(self.tcx, trait_)));
            }
            Res::PrimTy(p) => {
                o.set("res", J::s("prim"));
                o.set("def", J::s(p.name_str()));
            }
            other => {
                o.set("res", J::s("other"));
                o.set("def", J::s(&format!("{:?}", other)));
            }
        }
    }

    fn qpath(&self, q: &QPath<'tcx>, id: hir::HirId, o: &mut J) {
        let r = self.tr.qpath_res(q, id);
        self.res(r, o);
    }

    fn block(&self, b: &'tcx hir::Block<'tcx>, label: Option<String>) -> J {
        let mut o = J::k("Block");
        o.set("id", J::s(&hid(b.hir_id)));
        if let Some(l) = label {
            o.set("label", J::s(&l));
        }
        if !matches!(b.rules, hir::BlockCheckMode::DefaultBlock) {
            o.set("unsafe", J::Bool(true));
        }
        let mut st = Vec::new();
        for s in b.stmts {
            match s.kind {
                StmtKind::Let(l) => {
                    let mut lo = J::k("Let");
                    lo.set("sp", J::s(&span_str(self.tcx, s.span)));
                    lo.set("pat", self.pat(l.pat));
                    lo.set("init", J::opt(l.init.map(|e| self.expr(e))));
                    if let Some(els) = l.els {
                        lo.set("els", self.block(els, None));
                    }
                    st.push(lo);
                }
                StmtKind::Item(_) => {
                    st.push(J::k("ItemStmt"));
                }
                StmtKind::Expr(e) => {
                    let mut so = J::k("ExprStmt");
                    so.set("e", self.expr(e));
                    st.push(so);
                }
                StmtKind::Semi(e) => {
                    let mut so = J::k("ExprStmt");
                    so.set("semi", J::Bool(true));
                    so.set("e", self.expr(e));
                    st.push(so);
                }
            }
        }
        o.set("stmts", J::Arr(st));
        o.set("tail", J::opt(b.expr.map(|e| self.expr(e))));
        o
    }

    fn pat(&self, p: &'tcx hir::Pat<'tcx>) -> J {
        let mut o;
        match p.kind {
            PatKind::Wild | PatKind::Missing => {
                o = J::k("PWild");
            }
            PatKind::Binding(mode, id, ident, sub) => {
                o = J::k("PBind");
                o.set("id", J::s(&hid(id)));
                o.set("name", J::s(ident.as_str()));
                o.set("mode", J::s(&format!("{:?}", mode)));
                if let Some(s) = sub {
                    o.set("sub", self.pat(s));
                }
            }
            PatKind::Struct(ref q, fields, _) => {
                o = J::k("PStruct");
                self.qpath(q, p.hir_id, &mut o);
                let mut fs = Vec::new();
                for f in fields {
                    let mut fo = J::obj();
                    fo.set("name", J::s(f.ident.as_str()));
                    fo.set("pat", self.pat(f.pat));
                    fs.push(fo);
                }
                o.set("fields", J::Arr(fs));
            }
            PatKind::TupleStruct(ref q, pats, ddpos) => {
                o = J::k("PTupleStruct");
                self.qpath(q, p.hir_id, &mut o);
                o.set("pats", J::Arr(pats.iter().map(|x| self.pat(x)).collect()));
                if let Some(n) = ddpos.as_opt_usize() {
                    o.set("dotdot", J::Int(n as i64));
                }
            }
            PatKind::Or(pats) => {
                o = J::k("POr");
                o.set("pats", J::Arr(pats.iter().map(|x| self.pat(x)).collect()));
            }
            PatKind::Tuple(pats, ddpos) => {
                o = J::k("PTuple");
                o.set("pats", J::Arr(pats.iter().map(|x| self.pat(x)).collect()));
                if let Some(n) = ddpos.as_opt_usize() {
                    o.set("dotdot", J::Int(n as i64));
                }
            }
            PatKind::Ref(inner, _, m) => {
                o = J::k("PRef");
                o.set("mut", J::Bool(m.is_mut()));
                o.set("pat", self.pat(inner));
            }
            PatKind::Box(inner) | PatKind::Deref(inner) => {
                o = J::k("PDeref");
                o.set("pat", self.pat(inner));
            }
            PatKind::Expr(pe) => {
                o = self.pat_expr(pe);
            }
            PatKind::Guard(inner, g) => {
                o = J::k("PGuard");
                o.set("pat", self.pat(inner));
                o.set("guard", self.expr(g));
            }
            PatKind::Range(lo, hi, end) => {
                o = J::k("PRange");
                o.set("lo", J::opt(lo.map(|x| self.pat_expr(x))));
                o.set("hi", J::opt(hi.map(|x| self.pat_expr(x))));
                o.set("end", J::s(&format!("{:?}", end)));
            }
            PatKind::Slice(a, m, b) => {
                o = J::k("PSlice");
                o.set("before", J::Arr(a.iter().map(|x| self.pat(x)).collect()));
                o.set("mid", J::opt(m.map(|x| self.pat(x))));
                o.set("after", J::Arr(b.iter().map(|x| self.pat(x)).collect()));
            }
            PatKind::Never => {
                o = J::k("PNever");
            }
            PatKind::Err(_) => {
                o = J::k("PErr");
            }
        }
        o.set("ty", J::s(&self.ty_s(self.tr.pat_ty(p))));
        o
    }

    fn pat_expr(&self, pe: &'tcx hir::PatExpr<'tcx>) -> J {
        match pe.kind {
            hir::PatExprKind::Lit { lit, negated } => {
                let mut o = J::k("PLit");
                self.lit(&lit.node, &mut o);
                o.set("neg", J::Bool(negated));
                o
            }
            hir::PatExprKind::Path(ref q) => {
                let mut o = J::k("PPath");
                self.qpath(q, pe.hir_id, &mut o);
                o
            }
        }
    }

    fn lit(&self, l: &LitKind, o: &mut J) {
        match l {
            LitKind::Str(s, _) => {
                o.set("lk", J::s("Str"));
                o.set("v", J::s(s.as_str()));
            }
            LitKind::Int(v, t) => {
                o.set("lk", J::s("Int"));
                o.set("v", J::s(&format!("{}", v.get())));
                o.set("suffix", J::s(&format!("{:?}", t)));
            }
            LitKind::Float(s, t) => {
                o.set("lk", J::s("Float"));
                o.set("v", J::s(s.as_str()));
                o.set("suffix", J::s(&format!("{:?}", t)));
            }
            LitKind::Bool(b) => {
                o.set("lk", J::s("Bool"));
                o.set("v", J::Bool(*b));
            }
            LitKind::Char(c) => {
                o.set("lk", J::s("Char"));
                o.set("v", J::s(&c.to_string()));
            }
            other => {
                o.set("lk", J::s("Other"));
                o.set("v", J::s(&format!("{:?}", other)));
            }
        }
    }

    /// `ADT::field` path for a field access on `base` (after auto-deref).
    fn field_def(&self, base: &'tcx hir::Expr<'tcx>, name: &str) -> Option<String> {
        let mut t = self.tr.expr_ty_adjusted(base);
        loop {
            match t.kind() {
                ty::Ref(_, inner, _) => t = *inner,
                ty::Adt(adt, _) => {
                    if adt.is_box() {
                        return None;
                    }
                    if adt.is_struct() || adt.is_union() {
                        let _ = name;
                        return Some(format!("{}::{}", def_str(self.tcx, adt.did()), name));
                    }
                    return None;
                }
                _ => return None,
            }
        }
    }

    fn for_loop(&self, e: &'tcx hir::Expr<'tcx>) -> Option<J> {
        // DropTemps?(Match(Call(into_iter,[iter]), [arm{pat: binding, body: Loop(block{stmts/expr:
        //   Match(Call(next,..), [None => Break, Some(pat) => body], ForLoopDesugar)}, ForLoop)}], ForLoopDesugar))
        let inner = match e.kind {
            ExprKind::DropTemps(x) => x,
            _ => e,
        };
        let (scrut, arms) = match inner.kind {
            ExprKind::Match(s, arms, hir::MatchSource::ForLoopDesugar) => (s, arms),
            _ => return None,
        };
        let iter = match scrut.kind {
            ExprKind::Call(_, args) if args.len() == 1 => &args[0],
            _ => return None,
        };
        if arms.len() != 1 {
            return None;
        }
        let (blk, label, loop_id) = match arms[0].body.kind {
            ExprKind::Loop(b, label, hir::LoopSource::ForLoop, _) => (b, label, arms[0].body.hir_id),
            _ => return None,
        };
        // the loop block holds a single match on next()
        let m = if let Some(t) = blk.expr {
            if !blk.stmts.is_empty() {
                return None;
            }
            t
        } else if blk.stmts.len() == 1 {
            match blk.stmts[0].kind {
                StmtKind::Expr(x) | StmtKind::Semi(x) => x,
                _ => return None,
            }
        } else {
            return None;
        };
        let marms = match m.kind {
            ExprKind::Match(_, marms, hir::MatchSource::ForLoopDesugar) => marms,
            _ => return None,
        };
        if marms.len() != 2 {
            return None;
        }
        // arm 0: None => break ; arm 1: Some(pat) => body
        let some = &marms[1];
        let pat = match some.pat.kind {
            PatKind::TupleStruct(_, pats, _) if pats.len() == 1 => &pats[0],
            PatKind::Struct(_, fields, _) if fields.len() == 1 => fields[0].pat,
            _ => return None,
        };
        let mut o = J::k("For");
        o.set("id", J::s(&hid(loop_id)));
        if let Some(l) = label {
            o.set("label", J::s(l.ident.as_str()));
        }
        o.set("pat", self.pat(pat));
        o.set("iter", self.expr(iter));
        o.set("body", self.expr(some.body));
        Some(o)
    }

    fn expr(&self, e: &'tcx hir::Expr<'tcx>) -> J {
        if let Some(f) = self.for_loop(e) {
            let mut f = f;
            f.set("ty", J::s("()"));
            f.set("sp", J::s(&span_str(self.tcx, e.span)));
            return f;
        }
        let mut o;
        match e.kind {
            ExprKind::DropTemps(x) | ExprKind::Use(x, _) | ExprKind::Type(x, _) => {
                return self.expr(x);
            }
            ExprKind::ConstBlock(_) => {
                o = J::k("ConstBlock");
            }
            ExprKind::Array(xs) => {
                o = J::k("Array");
                o.set("elems", J::Arr(xs.iter().map(|x| self.expr(x)).collect()));
            }
            ExprKind::Tup(xs) => {
                o = J::k("Tuple");
                o.set("elems", J::Arr(xs.iter().map(|x| self.expr(x)).collect()));
            }
            ExprKind::Call(f, args) => {
                o = J::k("Call");
                // resolved callee when the callee is a path
                if let ExprKind::Path(ref q) = f.kind {
                    let r = self.tr.qpath_res(q, f.hir_id);
                    self.res(r, &mut o);
                } else if let Some(d) = self.tr.type_dependent_def_id(e.hir_id) {
                    o.set("res", J::s("def"));
                    o.set("def", J::s(&def_str(self.tcx, d)));
                }
                o.set("fty", J::s(&self.ty_s(self.tr.expr_ty(f))));
                o.set("f", self.expr(f));
                o.set("args", J::Arr(args.iter().map(|x| self.expr(x)).collect()));
            }
            ExprKind::MethodCall(seg, recv, args, _) => {
                o = J::k("MethodCall");
                o.set("name", J::s(seg.ident.as_str()));
                if let Some(d) = self.tr.type_dependent_def_id(e.hir_id) {
                    o.set("def", J::s(&def_str(self.tcx, d)));
                    // the trait (if any) the method belongs to, for trait methods
                    if let Some(t) = self.tcx.trait_of_assoc(d) {
                        o.set("trait", J::s(&def_str(self.tcx, t)));
                    }
                }
                o.set("recv_ty", J::s(&self.ty_s(self.tr.expr_ty_adjusted(recv))));
                o.set("recv", self.expr(recv));
                o.set("args", J::Arr(args.iter().map(|x| self.expr(x)).collect()));
            }
            ExprKind::Binary(op, l, r) => {
                o = J::k("Binary");
                o.set("op", J::s(&format!("{:?}", op.node)));
                if let Some(d) = self.tr.type_dependent_def_id(e.hir_id) {
                    o.set("def", J::s(&def_str(self.tcx, d)));
                }
                o.set("l", self.expr(l));
                o.set("r", self.expr(r));
            }
            ExprKind::Unary(op, x) => {
                o = J::k("Unary");
                o.set("op", J::s(&format!("{:?}", op)));
                if let Some(d) = self.tr.type_dependent_def_id(e.hir_id) {
                    o.set("def", J::s(&def_str(self.tcx, d)));
                }
                o.set("e", self.expr(x));
            }
            ExprKind::Lit(l) => {
                o = J::k("Lit");
                self.lit(&l.node, &mut o);
            }
            ExprKind::Cast(x, _) => {
                o = J::k("Cast");
                o.set("e", self.expr(x));
            }
            ExprKind::Let(l) => {
                o = J::k("LetExpr");
                o.set("pat", self.pat(l.pat));
                o.set("init", self.expr(l.init));
            }
            ExprKind::If(c, t, el) => {
                o = J::k("If");
                o.set("cond", self.expr(c));
                o.set("then", self.expr(t));
                o.set("else", J::opt(el.map(|x| self.expr(x))));
            }
            ExprKind::Loop(b, label, src, _) => {
                o = J::k("Loop");
                o.set("id", J::s(&hid(e.hir_id)));
                if let Some(l) = label {
                    o.set("label", J::s(l.ident.as_str()));
                }
                o.set("src", J::s(&format!("{:?}", src)));
                o.set("body", self.block(b, None));
            }
            ExprKind::Match(s, arms, src) => {
                o = J::k("Match");
                o.set("src", J::s(&format!("{:?}", src).split('(').next().unwrap_or("").to_string()));
                o.set("scrut", self.expr(s));
                let mut av = Vec::new();
                for a in arms {
                    let mut ao = J::obj();
                    ao.set("pat", self.pat(a.pat));
                    ao.set("guard", J::opt(a.guard.map(|g| self.expr(g))));
                    ao.set("body", self.expr(a.body));
                    ao.set("sp", J::s(&span_str(self.tcx, a.span)));
                    av.push(ao);
                }
                o.set("arms", J::Arr(av));
            }
            ExprKind::Closure(c) => {
                o = J::k("Closure");
                o.set("def", J::s(&def_str(self.tcx, c.def_id.to_def_id())));
                let body = self.tcx.hir_body(c.body);
                // closures share the typeck results of their parent
                o.set("params", J::Arr(body.params.iter().map(|p| self.pat(p.pat)).collect()));
                o.set("body", self.expr(body.value));
            }
            ExprKind::Block(b, label) => {
                o = self.block(b, label.map(|l| l.ident.as_str().to_string()));
                if let Some(_) = label {
                    // labelled blocks are break targets; their id is the expr's id
                    o.set("bid", J::s(&hid(e.hir_id)));
                }
            }
            ExprKind::Assign(l, r, _) => {
                o = J::k("Assign");
                o.set("l", self.expr(l));
                o.set("r", self.expr(r));
            }
            ExprKind::AssignOp(op, l, r) => {
                o = J::k("AssignOp");
                o.set("op", J::s(&format!("{:?}", op.node)));
                if let Some(d) = self.tr.type_dependent_def_id(e.hir_id) {
                    o.set("def", J::s(&def_str(self.tcx, d)));
                }
                o.set("l", self.expr(l));
                o.set("r", self.expr(r));
            }
            ExprKind::Field(b, ident) => {
                o = J::k("Field");
                o.set("name", J::s(ident.as_str()));
                if let Some(fd) = self.field_def(b, ident.as_str()) {
                    o.set("fdef", J::s(&fd));
                }
                o.set("e", self.expr(b));
            }
            ExprKind::Index(b, i, _) => {
                o = J::k("Index");
                if let Some(d) = self.tr.type_dependent_def_id(e.hir_id) {
                    o.set("def", J::s(&def_str(self.tcx, d)));
                }
                o.set("base_ty", J::s(&self.ty_s(self.tr.expr_ty_adjusted(b))));
                o.set("e", self.expr(b));
                o.set("i", self.expr(i));
            }
            ExprKind::Path(ref q) => {
                o = J::k("Path");
                self.qpath(q, e.hir_id, &mut o);
            }
            ExprKind::AddrOf(_, m, x) => {
                o = J::k("AddrOf");
                o.set("mut", J::Bool(m.is_mut()));
                o.set("e", self.expr(x));
            }
            ExprKind::Break(dest, v) => {
                o = J::k("Break");
                if let Ok(t) = dest.target_id {
                    o.set("target", J::s(&hid(t)));
                }
                if let Some(l) = dest.label {
                    o.set("label", J::s(l.ident.as_str()));
                }
                o.set("e", J::opt(v.map(|x| self.expr(x))));
            }
            ExprKind::Continue(dest) => {
                o = J::k("Continue");
                if let Ok(t) = dest.target_id {
                    o.set("target", J::s(&hid(t)));
                }
                if let Some(l) = dest.label {
                    o.set("label", J::s(l.ident.as_str()));
                }
            }
            ExprKind::Ret(v) => {
                o = J::k("Return");
                o.set("e", J::opt(v.map(|x| self.expr(x))));
            }
            ExprKind::Struct(q, fields, tail) => {
                o = J::k("Struct");
                self.qpath(q, e.hir_id, &mut o);
                let mut fs = Vec::new();
                for f in fields {
                    let mut fo = J::obj();
                    fo.set("name", J::s(f.ident.as_str()));
                    fo.set("e", self.expr(f.expr));
                    fs.push(fo);
                }
                o.set("fields", J::Arr(fs));
                if let hir::StructTailExpr::Base(b) = tail {
                    o.set("base", self.expr(b));
                }
            }
            ExprKind::Repeat(v, _) => {
                o = J::k("Repeat");
                o.set("e", self.expr(v));
            }
            ExprKind::Become(_)
            | ExprKind::InlineAsm(_)
            | ExprKind::OffsetOf(..)
            | ExprKind::Yield(..)
            | ExprKind::UnsafeBinderCast(..)
            | ExprKind::Err(_) => {
                o = J::k("Unsupported");
                o.set("what", J::s(&format!("{:?}", e.kind).chars().take(40).collect::<String>()));
            }
        }
        o.set("ty", J::s(&self.ty_s(self.tr.expr_ty(e))));
        o.set("sp", J::s(&span_str(self.tcx, e.span)));
        if e.span.from_expansion() {
            o.set("mx", J::Bool(true));
        }
        // implicit adjustments (auto-deref / auto-borrow / unsize) as a compact string
        let adj = self.tr.expr_adjustments(e);
        if !adj.is_empty() {
            let mut s = String::new();
            for a in adj {
                use rustc_middle::ty::adjustment::Adjust;
                let c = match a.kind {
                    Adjust::Deref(..) => "D",
                    Adjust::Borrow(b) => {
                        if format!("{:?}", b).contains("Mut") { "M" } else { "B" }
                    }
                    Adjust::Pointer(..) => "P",
                    Adjust::NeverToAny => "N",
                };
                s.push_str(c);
            }
            o.set("adj", J::s(&s));
        }
        o
    }
}

pub fn bodies<'tcx>(tcx: TyCtxt<'tcx>) -> J {
    let mut out = Vec::new();
    for owner in tcx.hir_body_owners() {
        let dk = tcx.def_kind(owner);
        // closures are serialised inline in their parent
        if matches!(dk, DefKind::Closure | DefKind::InlineConst | DefKind::AnonConst) {
            continue;
        }
        let body = match tcx.hir_maybe_body_owned_by(owner) {
            Some(b) => b,
            None => continue,
        };
        let tr = tcx.typeck(owner);
        let cx = Cx { tcx, tr };
        let mut o = J::obj();
        o.set("def", J::s(&def_str(tcx, owner.to_def_id())));
        o.set("dk", J::s(&defkind_str(tcx, owner.to_def_id())));
        o.set("sp", J::s(&span_str(tcx, tcx.def_span(owner))));
        // impl / trait context
        if let Some(p) = tcx.opt_parent(owner.to_def_id()) {
            let pk = tcx.def_kind(p);
            if let DefKind::Impl { of_trait } = pk {
                o.set("impl_self", J::s(&format!("{}", tcx.type_of(p).instantiate_identity().skip_norm_wip())));
                if of_trait {
                    let tref = tcx.impl_trait_ref(p).instantiate_identity().skip_norm_wip();
                    o.set("impl_trait", J::s(&def_str(tcx, tref.def_id)));
                    o.set("impl_trait_ref", J::s(&format!("{}", tref)));
                }
            } else if let DefKind::Trait = pk {
                o.set("in_trait", J::s(&def_str(tcx, p)));
            }
        }
        o.set("params", J::Arr(body.params.iter().map(|p| cx.pat(p.pat)).collect()));
        o.set("body", cx.expr(body.value));
        out.push(o);
    }
    J::Arr(out)
}

fn const_bits<'tcx>(tcx: TyCtxt<'tcx>, d: LocalDefId) -> Option<String> {
    use rustc_middle::mir::interpret::Scalar;
    use rustc_middle::mir::ConstValue;
    let generics = tcx.generics_of(d);
    if generics.count() != 0 {
        return None;
    }
    match tcx.const_eval_poly(d.to_def_id()) {
        Ok(ConstValue::Scalar(Scalar::Int(i))) => Some(format!("{}", i.to_bits_unchecked())),
        _ => None,
    }
}

pub fn items<'tcx>(tcx: TyCtxt<'tcx>) -> J {
    let mut consts = Vec::new();
    let mut adts = Vec::new();
    let mut fns = Vec::new();
    let mut impls = Vec::new();
    let mut mods_ = Vec::new();
    let ci = tcx.hir_crate_items(());
    for d in ci.definitions() {
        let dk = tcx.def_kind(d);
        let did = d.to_def_id();
        match dk {
            DefKind::Const { .. } | DefKind::AssocConst { .. } | DefKind::Static { .. } => {
                let mut o = J::obj();
                o.set("def", J::s(&def_str(tcx, did)));
                o.set("dk", J::s(&defkind_str(tcx, did)));
                o.set("ty", J::s(&format!("{}", tcx.type_of(did).instantiate_identity().skip_norm_wip())));
                o.set("sp", J::s(&span_str(tcx, tcx.def_span(did))));
                if matches!(dk, DefKind::Const { .. }) {
                    if let Some(b) = const_bits(tcx, d) {
                        o.set("bits", J::s(&b));
                    }
                }
                consts.push(o);
            }
            DefKind::Struct | DefKind::Enum | DefKind::Union => {
                let adt = tcx.adt_def(did);
                let mut o = J::obj();
                o.set("def", J::s(&def_str(tcx, did)));
                o.set("dk", J::s(&defkind_str(tcx, did)));
                o.set("sp", J::s(&span_str(tcx, tcx.def_span(did))));
                o.set("vis", J::s(&format!("{:?}", tcx.visibility(did))));
                let mut vs = Vec::new();
                for v in adt.variants().iter() {
                    let mut vo = J::obj();
                    vo.set("name", J::s(v.name.as_str()));
                    vo.set("def", J::s(&def_str(tcx, v.def_id)));
                    let mut fs = Vec::new();
                    for f in v.fields.iter() {
                        let mut fo = J::obj();
                        fo.set("name", J::s(f.name.as_str()));
                        fo.set("ty", J::s(&format!("{}", tcx.type_of(f.did).instantiate_identity().skip_norm_wip())));
                        fo.set("vis", J::s(&format!("{:?}", f.vis)));
                        fs.push(fo);
                    }
                    vo.set("fields", J::Arr(fs));
                    vs.push(vo);
                }
                o.set("variants", J::Arr(vs));
                // Freeze (no interior mutability)
                let t = tcx.type_of(did).instantiate_identity().skip_norm_wip();
                if tcx.generics_of(did).count() == 0 {
                    let env = ty::TypingEnv::post_analysis(tcx, did);
                    o.set("freeze", J::Bool(t.is_freeze(tcx, env)));
                }
                adts.push(o);
            }
            DefKind::Fn | DefKind::AssocFn => {
                let mut o = J::obj();
                o.set("def", J::s(&def_str(tcx, did)));
                o.set("dk", J::s(&defkind_str(tcx, did)));
                o.set("sp", J::s(&span_str(tcx, tcx.def_span(did))));
                o.set("vis", J::s(&format!("{:?}", tcx.visibility(did))));
                let sig = tcx.fn_sig(did).instantiate_identity().skip_norm_wip().skip_binder();
                o.set("inputs", J::Arr(sig.inputs().iter().map(|t| J::s(&format!("{}", t))).collect()));
                o.set("output", J::s(&format!("{}", sig.output())));
                o.set("has_body", J::Bool(tcx.hir_maybe_body_owned_by(d).is_some()));
                if let Some(p) = tcx.opt_parent(did) {
                    o.set("parent", J::s(&def_str(tcx, p)));
                    o.set("parent_dk", J::s(&defkind_str(tcx, p)));
                }
                fns.push(o);
            }
            DefKind::Impl { of_trait } => {
                let mut o = J::obj();
                o.set("self", J::s(&format!("{}", tcx.type_of(did).instantiate_identity().skip_norm_wip())));
                if of_trait {
                    let tref = tcx.impl_trait_ref(did).instantiate_identity().skip_norm_wip();
                    o.set("trait", J::s(&def_str(tcx, tref.def_id)));
                    o.set("trait_ref", J::s(&format!("{}", tref)));
                }
                o.set("sp", J::s(&span_str(tcx, tcx.def_span(did))));
                let mut ms = Vec::new();
                for it in tcx.associated_items(did).in_definition_order() {
                    ms.push(J::s(&def_str(tcx, it.def_id)));
                }
                o.set("items", J::Arr(ms));
                impls.push(o);
            }
            DefKind::Mod => {
                mods_.push(J::s(&def_str(tcx, did)));
            }
            _ => {}
        }
    }
    let mut o = J::obj();
    o.set("consts", J::Arr(consts));
    o.set("adts", J::Arr(adts));
    o.set("fns", J::Arr(fns));
    o.set("impls", J::Arr(impls));
    o.set("mods", J::Arr(mods_));
    o
}
