// ivp-facts: a deliberately dumb fact extractor. It serialises the type-checked program
// (typed HIR tree = "TAST", MIR CFG, item tables) of the crate being compiled to one JSON
// file per compiler process. It does not judge anything; all rules live in /verif/engine.
//
// Used as RUSTC_WORKSPACE_WRAPPER: argv = [self, <real rustc>, rustc args...].
#![feature(rustc_private)]
#![allow(clippy::all)]

extern crate rustc_abi;
extern crate rustc_ast;
extern crate rustc_data_structures;
extern crate rustc_driver;
extern crate rustc_hir;
extern crate rustc_interface;
extern crate rustc_middle;
extern crate rustc_session;
extern crate rustc_span;

mod json;
mod mir;
mod tast;

use json::J;
use rustc_driver::Compilation;
use rustc_interface::interface;
use rustc_middle::ty::TyCtxt;

struct Cb {
    out_dir: String,
    tag: String,
    only: Option<String>,
}

impl rustc_driver::Callbacks for Cb {
    fn config(&mut self, _config: &mut interface::Config) {}

    fn after_analysis<'tcx>(&mut self, _c: &interface::Compiler, tcx: TyCtxt<'tcx>) -> Compilation {
        let krate = tcx.crate_name(rustc_span::def_id::LOCAL_CRATE).to_string();
        if let Some(o) = &self.only {
            if &krate != o {
                return Compilation::Continue;
            }
        }
        if tcx.dcx().has_errors().is_some() {
            return Compilation::Continue;
        }
        let crate_types: Vec<String> =
            tcx.crate_types().iter().map(|c| format!("{:?}", c)).collect();
        let is_test = tcx.sess.opts.test;
        let mut top = J::obj();
        top.set("crate", J::s(&krate));
        top.set("tag", J::s(&self.tag));
        top.set("crate_types", J::Arr(crate_types.iter().map(|s| J::s(s)).collect()));
        top.set("is_test", J::Bool(is_test));
        top.set("driver_version", J::s(env!("CARGO_PKG_VERSION")));
        top.set("files", tast::source_files(tcx));
        top.set("bodies", tast::bodies(tcx));
        top.set("items", tast::items(tcx));
        top.set("mir", mir::all(tcx));
        let kind = if is_test { "test" } else { "lib" };
        let main_src = tcx
            .sess
            .local_crate_source_file()
            .map(|p| format!("{:?}", p))
            .unwrap_or_default();
        top.set("main_src", J::s(&main_src));
        let path = format!(
            "{}/{}-{}-{}-{}.json",
            self.out_dir,
            krate,
            kind,
            self.tag,
            std::process::id()
        );
        let mut s = String::with_capacity(1 << 24);
        top.write(&mut s);
        // one write per process
        std::fs::write(&path, s).expect("ivp-facts: cannot write fact file");
        Compilation::Continue
    }
}

fn main() {
    let mut args: Vec<String> = std::env::args().collect();
    // wrapper mode: argv[1] is the real rustc path
    if args.len() > 1 && (args[1].ends_with("rustc") || args[1].contains("/rustc")) {
        args.remove(1);
    }
    let out_dir = std::env::var("IVP_FACTS_OUT").unwrap_or_else(|_| ".".to_string());
    let tag = std::env::var("IVP_FACTS_TAG").unwrap_or_else(|_| "default".to_string());
    let only = std::env::var("IVP_FACTS_ONLY").ok();
    let mut cb = Cb { out_dir, tag, only };
    rustc_driver::run_compiler(&args, &mut cb);
}
