// MIR view: CFG, resolved callees, switch targets, asserts. Statements are kept as their
// Debug rendering plus the assigned place; rules that need more use the TAST.
use crate::json::J;
use rustc_hir::def::DefKind;
use rustc_middle::mir::{self, Operand, StatementKind, TerminatorKind};
use rustc_middle::ty::{self, Instance, TyCtxt};

fn op_s(o: &Operand<'_>) -> String {
    format!("{:?}", o)
}

pub fn all<'tcx>(tcx: TyCtxt<'tcx>) -> J {
    let mut out = Vec::new();
    for owner in tcx.hir_body_owners() {
        let dk = tcx.def_kind(owner);
        if !matches!(dk, DefKind::Fn | DefKind::AssocFn | DefKind::Closure) {
            continue;
        }
        let did = owner.to_def_id();
        let body: &mir::Body<'tcx> = tcx.optimized_mir(did);
        let mut o = J::obj();
        o.set("def", J::s(&tcx.def_path_str(did)));
        o.set("dk", J::s(&format!("{:?}", dk)));
        o.set("arg_count", J::Int(body.arg_count as i64));
        let mut locals = Vec::new();
        for (_, d) in body.local_decls.iter_enumerated() {
            locals.push(J::s(&format!("{}", d.ty)));
        }
        o.set("locals", J::Arr(locals));
        let mut dbg = Vec::new();
        for v in body.var_debug_info.iter() {
            let mut vo = J::obj();
            vo.set("name", J::s(v.name.as_str()));
            vo.set("value", J::s(&format!("{:?}", v.value)));
            dbg.push(vo);
        }
        o.set("debug", J::Arr(dbg));
        let env = ty::TypingEnv::post_analysis(tcx, did);
        let mut blocks = Vec::new();
        for (_bb, data) in body.basic_blocks.iter_enumerated() {
            let mut bo = J::obj();
            let mut st = Vec::new();
            for s in data.statements.iter() {
                match &s.kind {
                    StatementKind::Assign(b) => {
                        let (place, rv) = &**b;
                        let mut so = J::obj();
                        so.set("p", J::s(&format!("{:?}", place)));
                        so.set("rv", J::s(&format!("{:?}", rv)));
                        st.push(so);
                    }
                    StatementKind::StorageLive(_)
                    | StatementKind::StorageDead(_)
                    | StatementKind::Nop => {}
                    other => {
                        let mut so = J::obj();
                        so.set("s", J::s(&format!("{:?}", other)));
                        st.push(so);
                    }
                }
            }
            bo.set("stmts", J::Arr(st));
            if data.is_cleanup {
                bo.set("cleanup", J::Bool(true));
            }
            let term = data.terminator();
            let mut t = J::obj();
            let sm = tcx.sess.source_map();
            let lo = sm.lookup_char_pos(term.source_info.span.source_callsite().lo());
            t.set(
                "sp",
                J::s(&format!("{}:{}", lo.file.name.prefer_local_unconditionally(), lo.line)),
            );
            match &term.kind {
                TerminatorKind::Goto { target } => {
                    t.set("k", J::s("Goto"));
                    t.set("targets", J::Arr(vec![J::Int(target.as_u32() as i64)]));
                }
                TerminatorKind::SwitchInt { discr, targets } => {
                    t.set("k", J::s("SwitchInt"));
                    t.set("discr", J::s(&op_s(discr)));
                    let mut vals = Vec::new();
                    let mut tg = Vec::new();
                    for (v, b) in targets.iter() {
                        vals.push(J::s(&format!("{}", v)));
                        tg.push(J::Int(b.as_u32() as i64));
                    }
                    tg.push(J::Int(targets.otherwise().as_u32() as i64));
                    t.set("values", J::Arr(vals));
                    t.set("targets", J::Arr(tg));
                }
                TerminatorKind::Return => {
                    t.set("k", J::s("Return"));
                }
                TerminatorKind::Unreachable => {
                    t.set("k", J::s("Unreachable"));
                }
                TerminatorKind::UnwindResume => {
                    t.set("k", J::s("UnwindResume"));
                }
                TerminatorKind::UnwindTerminate(_) => {
                    t.set("k", J::s("UnwindTerminate"));
                }
                TerminatorKind::Drop { place, target, .. } => {
                    t.set("k", J::s("Drop"));
                    t.set("place", J::s(&format!("{:?}", place)));
                    t.set("targets", J::Arr(vec![J::Int(target.as_u32() as i64)]));
                }
                TerminatorKind::Call { func, args, destination, target, .. } => {
                    t.set("k", J::s("Call"));
                    if let Some((d, ga)) = func.const_fn_def() {
                        t.set("callee", J::s(&tcx.def_path_str(d)));
                        t.set("callee_full", J::s(&tcx.def_path_str_with_args(d, ga)));
                        if let Some(tr) = tcx.trait_of_assoc(d) {
                            t.set("trait", J::s(&tcx.def_path_str(tr)));
                        }
                        if let Ok(Some(inst)) = Instance::try_resolve(tcx, env, d, ga) {
                            let rd = inst.def_id();
                            if rd != d {
                                t.set("resolved", J::s(&tcx.def_path_str(rd)));
                            }
                        }
                    } else {
                        t.set("callee_op", J::s(&op_s(func)));
                        t.set("callee_ty", J::s(&format!("{}", func.ty(&body.local_decls, tcx))));
                    }
                    t.set("args", J::Arr(args.iter().map(|a| J::s(&op_s(&a.node))).collect()));
                    t.set("dest", J::s(&format!("{:?}", destination)));
                    let mut tg = Vec::new();
                    if let Some(b) = target {
                        tg.push(J::Int(b.as_u32() as i64));
                    }
                    t.set("targets", J::Arr(tg));
                    t.set("mx", J::Bool(term.source_info.span.from_expansion()));
                }
                TerminatorKind::TailCall { .. } => {
                    t.set("k", J::s("TailCall"));
                }
                TerminatorKind::Assert { cond, expected, msg, target, .. } => {
                    t.set("k", J::s("Assert"));
                    t.set("cond", J::s(&op_s(cond)));
                    t.set("expected", J::Bool(*expected));
                    let m = format!("{:?}", msg);
                    let kind = m.split(|c| c == '(' || c == ' ' || c == '{').next().unwrap_or("").to_string();
                    t.set("msg", J::s(&kind));
                    t.set("targets", J::Arr(vec![J::Int(target.as_u32() as i64)]));
                }
                TerminatorKind::FalseEdge { real_target, .. } => {
                    t.set("k", J::s("Goto"));
                    t.set("targets", J::Arr(vec![J::Int(real_target.as_u32() as i64)]));
                }
                TerminatorKind::FalseUnwind { real_target, .. } => {
                    t.set("k", J::s("Goto"));
                    t.set("targets", J::Arr(vec![J::Int(real_target.as_u32() as i64)]));
                }
                other => {
                    t.set("k", J::s("Other"));
                    t.set("what", J::s(&format!("{:?}", other).chars().take(60).collect::<String>()));
                }
            }
            bo.set("term", t);
            blocks.push(bo);
        }
        o.set("blocks", J::Arr(blocks));
        out.push(o);
    }
    J::Arr(out)
}
