// Minimal JSON value + writer (no dependencies).
pub enum J {
    Null,
    Bool(bool),
    Int(i64),
    Str(String),
    Arr(Vec<J>),
    Obj(Vec<(&'static str, J)>),
}

impl J {
    pub fn obj() -> J {
        J::Obj(Vec::new())
    }
    pub fn s(x: &str) -> J {
        J::Str(x.to_string())
    }
    pub fn k(kind: &'static str) -> J {
        let mut o = J::obj();
        o.set("k", J::Str(kind.to_string()));
        o
    }
    pub fn set(&mut self, key: &'static str, v: J) {
        if let J::Obj(m) = self {
            m.push((key, v));
        }
    }
    pub fn opt(v: Option<J>) -> J {
        v.unwrap_or(J::Null)
    }
    pub fn write(&self, out: &mut String) {
        match self {
            J::Null => out.push_str("null"),
            J::Bool(b) => out.push_str(if *b { "true" } else { "false" }),
            J::Int(i) => out.push_str(&i.to_string()),
            J::Str(s) => write_str(s, out),
            J::Arr(a) => {
                out.push('[');
                for (i, x) in a.iter().enumerate() {
                    if i > 0 {
                        out.push(',');
                    }
                    x.write(out);
                }
                out.push(']');
            }
            J::Obj(m) => {
                out.push('{');
                for (i, (k, v)) in m.iter().enumerate() {
                    if i > 0 {
                        out.push(',');
                    }
                    write_str(k, out);
                    out.push(':');
                    v.write(out);
                }
                out.push('}');
            }
        }
    }
}

fn write_str(s: &str, out: &mut String) {
    out.push('"');
    for c in s.chars() {
        match c {
            '"' => out.push_str("\\\""),
            '\\' => out.push_str("\\\\"),
            '\n' => out.push_str("\\n"),
            '\r' => out.push_str("\\r"),
            '\t' => out.push_str("\\t"),
            c if (c as u32) < 0x20 => out.push_str(&format!("\\u{:04x}", c as u32)),
            c => out.push(c),
        }
    }
    out.push('"');
}
